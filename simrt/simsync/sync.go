// Package simsync is a drop-in replacement for package sync used in the
// instrumented scratch copy of esimov/gogu (and of golang.org/x/sync).
//
// Every type wraps the real primitive. The simulator decides *when* an
// acquisition may happen (a task is only released into an acquisition that will
// not block); the task then performs the real operation, which returns at once.
// Blocking behaviour is therefore modelled (following the algorithms of the real
// implementation, nothing stronger), while the happens-before edges the race
// detector sees are the genuine ones.
//
// Goroutines that are not simulator tasks (set-up, observers, sequential
// reference executions) go straight through to the real primitive.
package simsync

import (
	"fmt"
	"sort"
	"sync"
	"sync/atomic"

	"verif/simrt"
)

// Locker is sync.Locker.
type Locker = sync.Locker

// Pool (unused by gogu today) is a deterministic stand-in for sync.Pool, see below. Map (unused by
// gogu today) wraps the real sync.Map:
// every operation is preceded by a scheduling point, and Range visits the entries in a
// deterministic order (the real Range follows Go's randomised map iteration, which has no seed).
type ()

type objHdr struct {
	epoch uint64
	id    int
}

//go:norace
func (h *objHdr) reg(s *simrt.Sim) bool {
	if h.epoch != s.Epoch() {
		h.epoch = s.Epoch()
		h.id = s.NewObjID()
		return true
	}
	return false
}

// fatal mirrors the unrecoverable `fatal error` of the real package: it is
// recorded as a fatal-class event and unwinds the offending task with a panic.
func fatal(s *simrt.Sim, t *simrt.Task, msg string) {
	if s != nil {
		s.RecordFatal(t, msg)
	}
	panic("fatal error: " + msg)
}

// ---------------------------------------------------------------- Mutex

// Mutex is a simulated sync.Mutex.
type Mutex struct {
	real   sync.Mutex
	hdr    objHdr
	locked bool
	owner  int
}

//go:norace
func (m *Mutex) SimEnabled(kind simrt.OpKind, t *simrt.Task) bool { return !m.locked }

//go:norace
func (m *Mutex) SimObjID() int { return m.hdr.id }

//go:norace
func (m *Mutex) SimDescribe() string {
	if m.locked {
		return "mutex held by task" + itoa(m.owner)
	}
	return "mutex free"
}

//go:norace
func (m *Mutex) sync(s *simrt.Sim) {
	if m.hdr.reg(s) {
		m.locked = false
	}
}

//go:norace
func (m *Mutex) setLocked(v bool, owner int) { m.locked = v; m.owner = owner }

//go:norace
func (m *Mutex) isLocked() bool { return m.locked }

// Lock locks m.
func (m *Mutex) Lock() {
	s, t := simrt.Current()
	if s == nil {
		m.real.Lock()
		return
	}
	m.sync(s)
	if t != nil && t.Killed() {
		return // a reaped task is unwinding: its deferred calls must not block or schedule
	}
	if t == nil {
		if m.isLocked() {
			panic("simsync: pass-through Mutex.Lock would block forever (lock left held)")
		}
		m.setLocked(true, -1)
		m.real.Lock()
		return
	}
	s.Park(t, simrt.OpLock, m)
	m.setLocked(true, t.ID)
	t.NoteAcquire()
	m.real.Lock()
	simrt.HoldPoint()
}

// TryLock tries to lock m.
func (m *Mutex) TryLock() bool {
	s, t := simrt.Current()
	if s == nil {
		return m.real.TryLock()
	}
	m.sync(s)
	if t != nil && t.Killed() {
		return false // a reaped task is unwinding: its deferred calls must not block or schedule
	}
	if t != nil {
		s.Park(t, simrt.OpTry, nil)
	}
	if m.isLocked() {
		return false
	}
	id := -1
	if t != nil {
		id = t.ID
	}
	m.setLocked(true, id)
	m.real.Lock()
	return true
}

// Unlock unlocks m.
func (m *Mutex) Unlock() {
	s, t := simrt.Current()
	if s == nil {
		m.real.Unlock()
		return
	}
	m.sync(s)
	if t != nil && t.Killed() {
		return // a reaped task is unwinding: its deferred calls must not block or schedule
	}
	if !m.isLocked() {
		if t != nil && t.Killed() {
			return
		}
		fatal(s, t, "sync: unlock of unlocked mutex")
	}
	m.setLocked(false, 0)
	m.real.Unlock()
}

// ---------------------------------------------------------------- RWMutex

// RWMutex is a simulated sync.RWMutex. The model follows the real algorithm:
// writers first exclude each other (inner), then announce themselves, which
// blocks new readers, then wait for the active readers to leave.
type RWMutex struct {
	real      sync.RWMutex
	hdr       objHdr
	inner     bool // a writer holds the writer-writer mutex
	announced bool // that writer has announced itself: new readers block
	held      bool // the writer holds the lock
	readers   int
	owner     int
}

//go:norace
func (m *RWMutex) SimEnabled(kind simrt.OpKind, t *simrt.Task) bool {
	switch kind {
	case simrt.OpWInner:
		return !m.inner
	case simrt.OpWDrain:
		return m.readers == 0
	case simrt.OpRLock:
		return !m.announced
	}
	return true
}

//go:norace
func (m *RWMutex) SimObjID() int { return m.hdr.id }

//go:norace
func (m *RWMutex) SimWriterPending() bool { return m.announced && !m.held }

//go:norace
func (m *RWMutex) SimDescribe() string {
	d := "rwmutex readers=" + itoa(m.readers)
	if m.held {
		d += " write-held by task" + itoa(m.owner)
	} else if m.announced {
		d += " writer pending task" + itoa(m.owner)
	}
	return d
}

//go:norace
func (m *RWMutex) sync(s *simrt.Sim) {
	if m.hdr.reg(s) {
		m.inner, m.announced, m.held, m.readers = false, false, false, 0
	}
}

//go:norace
func (m *RWMutex) get() (inner, announced, held bool, readers int) {
	return m.inner, m.announced, m.held, m.readers
}

//go:norace
func (m *RWMutex) setW(inner, announced, held bool, owner int) {
	m.inner, m.announced, m.held, m.owner = inner, announced, held, owner
}

//go:norace
func (m *RWMutex) addReaders(d int) int { m.readers += d; return m.readers }

// Lock locks m for writing.
func (m *RWMutex) Lock() {
	s, t := simrt.Current()
	if s == nil {
		m.real.Lock()
		return
	}
	m.sync(s)
	if t != nil && t.Killed() {
		return // a reaped task is unwinding: its deferred calls must not block or schedule
	}
	if t == nil {
		inner, _, _, readers := m.get()
		if inner || readers != 0 {
			panic("simsync: pass-through RWMutex.Lock would block forever (lock left held)")
		}
		m.setW(true, true, true, -1)
		m.real.Lock()
		return
	}
	s.Park(t, simrt.OpWInner, m)
	m.setW(true, true, false, t.ID)
	if _, _, _, readers := m.get(); readers != 0 {
		s.Park(t, simrt.OpWDrain, m)
	}
	m.setW(true, true, true, t.ID)
	t.NoteAcquire()
	m.real.Lock()
	simrt.HoldPoint()
}

// TryLock tries to lock m for writing.
func (m *RWMutex) TryLock() bool {
	s, t := simrt.Current()
	if s == nil {
		return m.real.TryLock()
	}
	m.sync(s)
	if t != nil && t.Killed() {
		return false // a reaped task is unwinding: its deferred calls must not block or schedule
	}
	if t != nil {
		s.Park(t, simrt.OpTry, nil)
	}
	inner, _, _, readers := m.get()
	if inner || readers != 0 {
		return false
	}
	id := -1
	if t != nil {
		id = t.ID
	}
	m.setW(true, true, true, id)
	m.real.Lock()
	return true
}

// Unlock unlocks m for writing.
func (m *RWMutex) Unlock() {
	s, t := simrt.Current()
	if s == nil {
		m.real.Unlock()
		return
	}
	m.sync(s)
	if t != nil && t.Killed() {
		return // a reaped task is unwinding: its deferred calls must not block or schedule
	}
	if _, _, held, _ := m.get(); !held {
		if t != nil && t.Killed() {
			// a reaped task may have announced without acquiring: withdraw
			if in, an, _, _ := m.get(); in && an {
				m.setW(false, false, false, 0)
			}
			return
		}
		fatal(s, t, "sync: Unlock of unlocked RWMutex")
	}
	m.setW(false, false, false, 0)
	m.real.Unlock()
}

// RLock locks m for reading.
func (m *RWMutex) RLock() {
	s, t := simrt.Current()
	if s == nil {
		m.real.RLock()
		return
	}
	m.sync(s)
	if t != nil && t.Killed() {
		return // a reaped task is unwinding: its deferred calls must not block or schedule
	}
	if t == nil {
		if _, announced, _, _ := m.get(); announced {
			panic("simsync: pass-through RWMutex.RLock would block forever (lock left held)")
		}
		m.addReaders(1)
		m.real.RLock()
		return
	}
	s.Park(t, simrt.OpRLock, m)
	m.addReaders(1)
	t.NoteAcquire()
	m.real.RLock()
	simrt.HoldPoint()
}

// TryRLock tries to lock m for reading.
func (m *RWMutex) TryRLock() bool {
	s, t := simrt.Current()
	if s == nil {
		return m.real.TryRLock()
	}
	m.sync(s)
	if t != nil && t.Killed() {
		return false // a reaped task is unwinding: its deferred calls must not block or schedule
	}
	if t != nil {
		s.Park(t, simrt.OpTry, nil)
	}
	if _, announced, _, _ := m.get(); announced {
		return false
	}
	m.addReaders(1)
	m.real.RLock()
	return true
}

// RUnlock undoes a single RLock call.
func (m *RWMutex) RUnlock() {
	s, t := simrt.Current()
	if s == nil {
		m.real.RUnlock()
		return
	}
	m.sync(s)
	if t != nil && t.Killed() {
		return // a reaped task is unwinding: its deferred calls must not block or schedule
	}
	if _, _, held, readers := m.get(); readers <= 0 || held {
		if t != nil && t.Killed() {
			return
		}
		fatal(s, t, "sync: RUnlock of unlocked RWMutex")
	}
	m.real.RUnlock()
	m.addReaders(-1)
}

type rlocker RWMutex

func (r *rlocker) Lock()   { (*RWMutex)(r).RLock() }
func (r *rlocker) Unlock() { (*RWMutex)(r).RUnlock() }

// RLocker returns a Locker whose Lock/Unlock call RLock/RUnlock.
func (m *RWMutex) RLocker() Locker { return (*rlocker)(m) }

// ---------------------------------------------------------------- Cond

// Cond is a simulated sync.Cond. Waiters take tickets exactly as the runtime's
// notifyList does: Signal wakes the longest-waiting goroutine, Broadcast all
// current waiters; there are no spurious wake-ups.
type Cond struct {
	L Locker

	hdr    objHdr
	wait   uint64 // next ticket
	notify uint64 // tickets below this value have been notified
}

// NewCond returns a new Cond with Locker l.
func NewCond(l Locker) *Cond { return &Cond{L: l} }

//go:norace
func (c *Cond) SimEnabled(kind simrt.OpKind, t *simrt.Task) bool { return t.Ticket < c.notify }

//go:norace
func (c *Cond) SimObjID() int { return c.hdr.id }

//go:norace
func (c *Cond) SimDescribe() string {
	return "cond waiters=" + itoa(int(c.wait-c.notify))
}

//go:norace
func (c *Cond) sync(s *simrt.Sim) {
	if c.hdr.reg(s) {
		c.wait, c.notify = 0, 0
	}
}

//go:norace
func (c *Cond) take(t *simrt.Task) { t.Ticket = c.wait; c.wait++ }

//go:norace
func (c *Cond) signal(all bool) {
	if all {
		c.notify = c.wait
	} else if c.notify < c.wait {
		c.notify++
	}
}

// realConds holds one real sync.Cond per pass-through Cond (only used when no simulator is active).
var realConds sync.Map

func (c *Cond) realCond() *sync.Cond {
	if v, ok := realConds.Load(c); ok {
		return v.(*sync.Cond)
	}
	v, _ := realConds.LoadOrStore(c, sync.NewCond(c.L))
	return v.(*sync.Cond)
}

// Wait atomically unlocks c.L and suspends the calling task until notified, then re-locks c.L.
func (c *Cond) Wait() {
	s, t := simrt.Current()
	if s == nil {
		c.realCond().Wait()
		return
	}
	c.sync(s)
	if t != nil && t.Killed() {
		return // a reaped task is unwinding: its deferred calls must not block or schedule
	}
	if t == nil {
		panic("simsync: pass-through Cond.Wait would block forever")
	}
	c.take(t)
	c.L.Unlock()
	s.Park(t, simrt.OpCondWait, c)
	c.L.Lock()
}

// Signal wakes one waiter.
func (c *Cond) Signal() {
	s, t := simrt.Current()
	if s == nil {
		c.realCond().Signal()
		return
	}
	c.sync(s)
	if t != nil && t.Killed() {
		return // a reaped task is unwinding: its deferred calls must not block or schedule
	}
	if t != nil {
		s.Park(t, simrt.OpSignal, nil)
	}
	c.signal(false)
}

// Broadcast wakes all waiters.
func (c *Cond) Broadcast() {
	s, t := simrt.Current()
	if s == nil {
		c.realCond().Broadcast()
		return
	}
	c.sync(s)
	if t != nil && t.Killed() {
		return // a reaped task is unwinding: its deferred calls must not block or schedule
	}
	if t != nil {
		s.Park(t, simrt.OpSignal, nil)
	}
	c.signal(true)
}

// ---------------------------------------------------------------- WaitGroup

// WaitGroup is a simulated sync.WaitGroup.
type WaitGroup struct {
	real sync.WaitGroup
	hdr  objHdr
	n    int
}

//go:norace
func (w *WaitGroup) SimEnabled(kind simrt.OpKind, t *simrt.Task) bool { return w.n == 0 }

//go:norace
func (w *WaitGroup) SimObjID() int { return w.hdr.id }

//go:norace
func (w *WaitGroup) SimDescribe() string { return "waitgroup counter=" + itoa(w.n) }

//go:norace
func (w *WaitGroup) sync(s *simrt.Sim) {
	if w.hdr.reg(s) {
		w.n = 0
	}
}

//go:norace
func (w *WaitGroup) add(d int) int { w.n += d; return w.n }

// Add adds delta to the counter.
func (w *WaitGroup) Add(delta int) {
	s, t := simrt.Current()
	if s == nil {
		w.real.Add(delta)
		return
	}
	w.sync(s)
	if t != nil && t.Killed() {
		return // a reaped task is unwinding: its deferred calls must not block or schedule
	}
	if t != nil {
		s.Park(t, simrt.OpSignal, nil)
	}
	if w.add(delta) < 0 {
		w.add(-delta)
		if t != nil && t.Killed() {
			return
		}
		fatal(s, t, "sync: negative WaitGroup counter")
	}
	w.real.Add(delta)
}

// Done decrements the counter.
func (w *WaitGroup) Done() { w.Add(-1) }

// Go calls f in a new goroutine and adds it to the group.
func (w *WaitGroup) Go(f func()) {
	w.Add(1)
	simrt.Go(func() {
		defer w.Done()
		f()
	})
}

// Wait blocks until the counter is zero.
func (w *WaitGroup) Wait() {
	s, t := simrt.Current()
	if s == nil {
		w.real.Wait()
		return
	}
	w.sync(s)
	if t != nil && t.Killed() {
		return // a reaped task is unwinding: its deferred calls must not block or schedule
	}
	if t == nil {
		if w.add(0) != 0 {
			panic("simsync: pass-through WaitGroup.Wait would block forever")
		}
		w.real.Wait()
		return
	}
	s.Park(t, simrt.OpWGWait, w)
	w.real.Wait()
}

// ---------------------------------------------------------------- Once

// Once is a simulated sync.Once built from the simulated Mutex and a real atomic flag.
type Once struct {
	m    Mutex
	done atomic.Uint32
}

// Do calls f if and only if Do is being called for the first time for this Once.
func (o *Once) Do(f func()) {
	if o.done.Load() == 0 {
		o.doSlow(f)
	}
}

func (o *Once) doSlow(f func()) {
	o.m.Lock()
	defer o.m.Unlock()
	if o.done.Load() == 0 {
		defer o.done.Store(1)
		f()
	}
}

// OnceFunc returns a function that invokes f only once.
func OnceFunc(f func()) func() {
	var once Once
	return func() { once.Do(f) }
}

// OnceValue returns a function that invokes f only once and returns its value.
func OnceValue[T any](f func() T) func() T {
	var once Once
	var v T
	return func() T {
		once.Do(func() { v = f() })
		return v
	}
}

// OnceValues returns a function that invokes f only once and returns its values.
func OnceValues[T1, T2 any](f func() (T1, T2)) func() (T1, T2) {
	var once Once
	var v1 T1
	var v2 T2
	return func() (T1, T2) {
		once.Do(func() { v1, v2 = f() })
		return v1, v2
	}
}

func itoa(n int) string {
	if n == 0 {
		return "0"
	}
	neg := n < 0
	if neg {
		n = -n
	}
	var b [20]byte
	i := len(b)
	for n > 0 {
		i--
		b[i] = byte('0' + n%10)
		n /= 10
	}
	if neg {
		i--
		b[i] = '-'
	}
	return string(b[i:])
}

// Map mirrors sync.Map.
type Map struct{ m sync.Map }

func (m *Map) Load(key any) (value any, ok bool) { simrt.AtomicYield(); return m.m.Load(key) }
func (m *Map) Store(key, value any)              { simrt.AtomicYield(); m.m.Store(key, value) }
func (m *Map) Clear()                            { simrt.AtomicYield(); m.m.Clear() }
func (m *Map) Delete(key any)                    { simrt.AtomicYield(); m.m.Delete(key) }
func (m *Map) LoadOrStore(key, value any) (actual any, loaded bool) {
	simrt.AtomicYield()
	return m.m.LoadOrStore(key, value)
}
func (m *Map) LoadAndDelete(key any) (value any, loaded bool) {
	simrt.AtomicYield()
	return m.m.LoadAndDelete(key)
}
func (m *Map) Swap(key, value any) (previous any, loaded bool) {
	simrt.AtomicYield()
	return m.m.Swap(key, value)
}
func (m *Map) CompareAndSwap(key, old, new any) (swapped bool) {
	simrt.AtomicYield()
	return m.m.CompareAndSwap(key, old, new)
}
func (m *Map) CompareAndDelete(key, old any) (deleted bool) {
	simrt.AtomicYield()
	return m.m.CompareAndDelete(key, old)
}

// Range calls f for the entries present when it starts, in the order of their printed keys.
func (m *Map) Range(f func(key, value any) bool) {
	simrt.AtomicYield()
	type kv struct {
		k, v any
		s    string
	}
	var all []kv
	m.m.Range(func(k, v any) bool {
		all = append(all, kv{k, v, fmt.Sprintf("%T:%v", k, k)})
		return true
	})
	sort.SliceStable(all, func(i, j int) bool { return all[i].s < all[j].s })
	for _, e := range all {
		if v, ok := m.m.Load(e.k); ok {
			if !f(e.k, v) {
				return
			}
		}
	}
}

// Pool mirrors sync.Pool. The real pool is per-P and emptied by the garbage collector, so what
// Get returns depends on which P a goroutine happens to run on: nondeterminism with no seed. This
// stand-in is one of the behaviours the real pool may show, chosen per run by the seed: either a
// LIFO free list that recycles every object put into it (the adversarial case for code that keeps
// using an object after Put), or a pool that drops everything (Get always calls New). Put and
// Get are scheduling points. The hand-over of an object carries the same happens-before edge
// as in the real pool (Put of x happens before the Get that returns x) and no other: it goes
// through one atomic flag per slot, while the free list itself is simulator state.
type Pool struct {
	New   func() any
	slots [poolCap]poolSlot
	n     int
	epoch uint64 // the simulated run the content belongs to
}

const poolCap = 64

type poolSlot struct {
	v    any
	flag atomic.Uint32
}

// fresh empties a pool that outlived a simulated run (a package-level sync.Pool of the code under
// test): what one run put into it must not surface in the next one - objects tied to the earlier
// run's bubble (timers, channels) would, and the run would no longer be a function of its seed.
// The real pool may drop its content at any time, so this is a behaviour it can show.
//
//go:norace
func (p *Pool) fresh() {
	if e := simrt.RunEpoch(); e != p.epoch {
		p.epoch = e
		for i := 0; i < p.n; i++ {
			p.slots[i].v = nil
		}
		p.n = 0
	}
}

//go:norace
func (p *Pool) push(x any) int {
	p.fresh()
	if p.n >= poolCap || simrt.PoolDrops() {
		return -1
	}
	p.slots[p.n].v = x
	p.n++
	return p.n - 1
}

//go:norace
func (p *Pool) pop() (any, int) {
	p.fresh()
	if p.n == 0 {
		return nil, -1
	}
	p.n--
	x := p.slots[p.n].v
	p.slots[p.n].v = nil
	return x, p.n
}

// Put adds x to the pool.
func (p *Pool) Put(x any) {
	if x == nil {
		return
	}
	simrt.AtomicYield()
	if i := p.push(x); i >= 0 {
		p.slots[i].flag.Store(1) // release
	}
}

// Get takes an object from the pool or makes a new one.
func (p *Pool) Get() any {
	simrt.AtomicYield()
	if x, i := p.pop(); i >= 0 {
		p.slots[i].flag.Load() // acquire
		return x
	}
	if p.New != nil {
		return p.New()
	}
	return nil
}
