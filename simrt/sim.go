// Package simrt is the deterministic scheduler ("dsim") used to run esimov/gogu
// code under a seeded, replayable schedule.
//
// Tasks are real goroutines. Every task parks on its own gate at every
// scheduling point; the scheduler (the goroutine that called Run) opens exactly
// one gate at a time and then waits, through Config.Wait (testing/synctest.Wait),
// until every goroutine of the bubble is durably blocked again. All simulator
// state is touched only from //go:norace functions, and all simulator channel
// traffic happens with race-detector synchronisation events disabled, so the
// hand-offs between tasks do not create happens-before edges: the race detector
// sees only the synchronisation performed by the program under test.
package simrt

import (
	"fmt"
	"runtime"
	"sync"
	"time"
)

// teardownHorizon is how much simulated time Teardown lets pass to get a goroutine blocked on a
// real timer or ticker back to a scheduling point.
const teardownHorizon = 1000 * time.Hour

// MaxTasks bounds the number of tasks of one run.
const MaxTasks = 256

// OpKind says what a parked task is about to do.
type OpKind uint8

const (
	OpPlain    OpKind = iota // plain scheduling point, always enabled
	OpStart                  // first instruction of a task
	OpLock                   // Mutex.Lock
	OpWInner                 // RWMutex.Lock, step 1: writer-writer exclusion
	OpWDrain                 // RWMutex.Lock, step 2: wait for active readers to leave
	OpRLock                  // RWMutex.RLock
	OpCondWait               // Cond.Wait, waiting for Signal/Broadcast
	OpWGWait                 // WaitGroup.Wait
	OpLatch                  // harness latch
	OpPreChan                // before a channel operation
	OpPostChan               // after a channel operation / after a timer wake-up
	OpSignal                 // before Cond.Signal / Broadcast / WaitGroup.Add / Done
	OpTry                    // TryLock / TryRLock
	OpOnce                   // Once.Do
	opKinds
)

var opNames = [...]string{"plain", "start", "lock", "wlock-inner", "wlock-drain", "rlock", "cond-wait", "wg-wait", "latch", "pre-chan", "post-chan", "signal", "try", "once"}

func (k OpKind) String() string {
	if int(k) < len(opNames) {
		return opNames[k]
	}
	return fmt.Sprintf("op%d", int(k))
}

// Waitable is a simulated synchronisation object a task can be parked on.
// Implementations must be //go:norace.
type Waitable interface {
	SimEnabled(kind OpKind, t *Task) bool
	SimObjID() int
}

const (
	stCreated uint8 = iota // slot allocated, goroutine not yet at its first park
	stParked               // blocked on its gate at a scheduling point
	stRunning              // released; running, or blocked on something the simulator does not model
	stDone
)

// Task is one simulated thread of control.
type Task struct {
	ID     int
	Name   string
	Client bool // created by the harness with Spawn; the run ends when all clients are done
	Timer  bool // created by AfterFunc
	Parent int

	gid        uint64
	mark       *taskMark
	gate       chan struct{}
	state      uint8
	kill       bool
	op         OpKind
	obj        Waitable
	Ticket     uint64 // Cond ticket while parked in OpCondWait
	stallUntil int64
	pri        int64
	timer      *time.Timer
	steps      int
	acqInOp    int // lock acquisitions since the harness last called OpBegin
	inOp       bool
	spin       int // consecutive runtime.Gosched calls with no other scheduling point in between
	inGosched  bool
	panicVal   any
	panicStack string
}

// End states of a run.
const (
	EndOK        = "ok"
	EndDeadlock  = "deadlock"   // clients unfinished, nothing can ever run again
	EndStepLimit = "step-limit" // inconclusive
	EndDiverged  = "replay-diverged"
)

// Decision kinds.
const (
	DRelease uint8 = iota
	DStall
	DJump
)

// Decision is one recorded scheduling or fault decision.
type Decision struct {
	Kind    uint8  `json:"k"`
	Task    int    `json:"t"`
	Delta   int64  `json:"d,omitempty"`
	Enabled uint64 `json:"e"` // bitmask of eligible task ids when the decision was taken
}

// Policies.
const (
	PolRandom = iota
	PolPCT
	PolSticky
)

// Config is the per-run simulator configuration (part of the swarm configuration).
type Config struct {
	Wait       func() // testing/synctest.Wait
	Policy     int
	PCTDepth   int     // for PolPCT
	PCTSteps   int     // estimated run length for PCT change points
	PreemptP   float64 // for PolSticky
	MaxSteps   int
	Horizon    time.Duration // no client progress for this much fake time => hang
	TimeFaults bool
	StallP     float64         // per-decision probability of a stall fault
	JumpP      float64         // per-decision probability of a clock jump
	Deltas     []time.Duration // stall menu
	JumpDeltas []time.Duration
	FaultSteps int        // faults are only injected during the first FaultSteps decisions
	Replay     []Decision // follow these decisions instead of the policy
	Lenient    bool       // replay: on mismatch fall back instead of diverging
	// AuxSeed seeds the auxiliary per-run streams (order of map iteration, math/rand package-level
	// functions, sync.Pool mode). They must not be split off the choice source at first use: a replay
	// follows the decision list and draws nothing from it, so the position would differ.
	AuxSeed uint64
}

// Stats are per-run counters.
type Stats struct {
	Steps          int
	Switches       int // decisions that released a different task than the previous one while that one was still eligible
	Stalls         int
	StallsTimer    int // stalls that hit a task sitting at a timer wake-up (timer_late)
	Jumps          int
	IdleWaits      int
	Tasks          int
	TimerTasks     int
	ReaderRefuse   int // probe: a reader was refused because a writer was pending
	SameLockWait   int // probe: two tasks parked on the same object
	MidOpSwitch    int // probe: a task was preempted between two lock acquisitions of one public call
	AtomicOps      int // scheduling points taken before sync/atomic operations of the code under test
	Goscheds       int // runtime.Gosched calls of the code under test
	HoldPoints     int // scheduling points taken while holding a freshly acquired lock (only when the code under test uses TryLock)
	MapRanges      int // draws made for the order of map iterations of the code under test
	LibRandStreams int // 1 if the code under test drew from math/rand's package-level functions
	Selects        int // select statements of the code under test executed through the deterministic stand-in
	SelectBlocked  int // ... of which none of the cases was ready and there was no default (the task blocked)
	TimerResets    int // Reset calls on time.AfterFunc timers of the code under test (each firing runs as its own task)
	TimerStops     int // Stop calls on such timers
	TimerUnseen    int // firings of a timer re-armed by a call the instrumentation did not see (allocated late; not replay-safe)
	Sig            uint64
	SimNanos       int64
}

// Sim is one simulated run.
type Sim struct {
	cfg    Config
	rng    *Rand
	tasks  [MaxTasks]*Task
	ntasks int
	poke   chan struct{}
	seq    uint64
	objs   int
	epoch  uint64

	poolMode     uint8 // 0 undecided, 1 sync.Pool stand-in recycles, 2 drops
	ord          *Rand // stream behind the order of map iteration in instrumented code
	lib          *Rand // stream behind math/rand's package-level functions in instrumented code
	cur          *Task
	start        time.Time
	lastProgress time.Time
	frozenUntil  int64
	held         int
	steps        int
	trace        []Decision
	replayPos    int
	pctChange    []int
	pctLow       int64
	St           Stats
	End          string
	EndDetail    string
	LibPanics    []string
	Fatal        []string
	tooMany      bool

	tmu    sync.Mutex  // guards ntasks/tasks against the (rare) allocation from a timer goroutine, and timers/queues
	timers []*timerRec // a slice, not a map: map accesses are reported by the race detector even from go:norace functions
	selr   *Rand       // stream behind the polling order of select statements in instrumented code
}

var active *Sim
var epochCounter uint64

func init() {
	// force package time's lazy (sync.Once guarded) initialisation before any simulated goroutine exists
	time.NewTimer(time.Hour).Stop()
	time.NewTicker(time.Hour).Stop()
	time.AfterFunc(time.Hour, func() {}).Stop()
}

//go:norace
func cur() *Sim { return active }

//go:norace
func setActive(s *Sim) { active = s }

// New creates a simulator and makes it the active one. Must be called from the
// goroutine that will call Run (inside the synctest bubble).
//
//go:norace
func New(cfg Config, rng *Rand) *Sim {
	if cfg.MaxSteps == 0 {
		cfg.MaxSteps = 4000
	}
	if cfg.Horizon == 0 {
		cfg.Horizon = time.Hour
	}
	if cfg.PCTSteps == 0 {
		cfg.PCTSteps = 40
	}
	epochCounter++
	s := &Sim{cfg: cfg, rng: rng, poke: make(chan struct{}, 1), epoch: epochCounter}
	s.start = time.Now()
	s.lastProgress = s.start
	s.St.Sig = 1469598103934665603
	if cfg.Policy == PolPCT && cfg.Replay == nil {
		for i := 1; i < cfg.PCTDepth; i++ {
			s.pctChange = append(s.pctChange, 1+rng.Intn(cfg.PCTSteps))
		}
	}
	setActive(s)
	return s
}

// Close deactivates the simulator.
//
//go:norace
func (s *Sim) Close() {
	if cur() == s {
		setActive(nil)
	}
}

// Epoch identifies the run; simulated objects re-register when they see a new epoch.
//
//go:norace
func (s *Sim) Epoch() uint64 { return s.epoch }

// NewObjID hands out the next object id (creation order, hence deterministic).
//
//go:norace
func (s *Sim) NewObjID() int { s.objs++; return s.objs }

// StopFaults ends fault injection for the rest of the run ("once faults stop").
//
//go:norace
func (s *Sim) StopFaults() { s.cfg.TimeFaults = false }

// Trace returns the decisions taken so far.
func (s *Sim) Trace() []Decision { return s.trace }

// Now returns the simulated clock (nanoseconds since the start of the run).
func (s *Sim) Now() int64 { return int64(time.Since(s.start)) }

//go:norace
func goid() uint64 {
	var buf [40]byte
	n := runtime.Stack(buf[:], false)
	// "goroutine 123 ["
	var id uint64
	for i := 10; i < n; i++ {
		c := buf[i]
		if c < '0' || c > '9' {
			break
		}
		id = id*10 + uint64(c-'0')
	}
	return id
}

// Current returns the simulator and the task of the calling goroutine, or nil,
// nil when the caller is not a simulated task (pass-through mode).
//
//go:norace
func Current() (*Sim, *Task) {
	s := cur()
	if s == nil {
		return nil, nil
	}
	return s, boundTask(s)
}

//go:norace
func (s *Sim) newTask(name string, client, timer bool, parent int) *Task {
	s.tlock()
	defer s.tunlock()
	if s.ntasks >= MaxTasks {
		s.tooMany = true
		return nil
	}
	t := &Task{ID: s.ntasks, Name: name, Client: client, Timer: timer, Parent: parent, gate: make(chan struct{})}
	t.pri = int64(s.rng.Uint64()>>2) + 1<<40
	s.tasks[s.ntasks] = t
	s.ntasks++
	s.St.Tasks++
	if timer {
		s.St.TimerTasks++
	}
	return t
}

//go:norace
func (s *Sim) pokeNB() {
	raceDisable()
	select {
	case s.poke <- struct{}{}:
	default:
	}
	raceEnable()
}

// killed is the panic-free way a reaped task unwinds.
type killedT struct{}

//go:norace
func (s *Sim) park(t *Task, kind OpKind, obj Waitable) {
	if t.kill {
		return // a reaped task is unwinding through its deferred calls: no more scheduling points
	}
	raceDisable()
	if !t.inGosched {
		t.spin = 0
	}
	t.op = kind
	t.obj = obj
	t.state = stParked
	select {
	case s.poke <- struct{}{}:
	default:
	}
	<-t.gate
	k := t.kill
	raceEnable()
	if k {
		runtime.Goexit()
	}
}

// Park is a scheduling point of task t: it returns when the scheduler has
// chosen t and (kind,obj) is enabled.
//
//go:norace
func (s *Sim) Park(t *Task, kind OpKind, obj Waitable) { s.park(t, kind, obj) }

// Killed reports whether the task is being reaped (shims then tolerate misuse).
//
//go:norace
func (t *Task) Killed() bool { return t.kill }

// NoteAcquire is called by the lock shims after an acquisition.
//
//go:norace
func (t *Task) NoteAcquire() { t.acqInOp++ }

//go:norace
func (s *Sim) taskMain(t *Task, f func()) {
	defer s.taskExit(t)
	bindTask(t)
	s.park(t, OpStart, nil)
	f()
}

//go:norace
func (s *Sim) taskExit(t *Task) {
	if r := recover(); r != nil {
		t.panicVal = r
		buf := make([]byte, 4096)
		n := runtime.Stack(buf, false)
		t.panicStack = string(buf[:n])
	}
	t.state = stDone
	unbindTask()
	s.pokeNB()
}

// Spawn creates a client task. Must be called before Run from the scheduler goroutine.
//
//go:norace
func (s *Sim) Spawn(name string, f func()) *Task {
	t := s.newTask(name, true, false, -1)
	if t == nil {
		panic("simrt: too many tasks")
	}
	go s.taskMain(t, f)
	return t
}

// Go is what an instrumented `go` statement calls.
//
//go:norace
func Go(f func()) {
	s, me := Current()
	if s == nil {
		go f()
		return
	}
	parent := -1
	if me != nil {
		parent = me.ID
	}
	t := s.newTask("go", false, false, parent)
	if t == nil {
		// too many tasks: the run is abandoned as inconclusive; do not start the goroutine
		return
	}
	go s.taskMain(t, f)
}

// AfterFunc is what an instrumented time.AfterFunc calls: every firing of the timer runs the
// callback as a task of its own. The task of a firing is allocated by the task that arms the timer
// (here, and in TimerReset), never by the runtime's timer goroutine, so task ids do not depend on
// how the two race.
//
//go:norace
func AfterFunc(d time.Duration, f func()) *time.Timer {
	s, me := Current()
	if s == nil {
		return time.AfterFunc(d, f)
	}
	parent := -1
	if me != nil {
		parent = me.ID
	}
	t := s.newTask("timer", false, true, parent)
	if t == nil {
		return time.AfterFunc(d, func() {})
	}
	rec := &timerRec{s: s, f: f, parent: parent, queue: []*Task{t}}
	tm := time.AfterFunc(d, rec.fire)
	s.tlock()
	rec.tm = tm
	t.timer = tm
	s.timers = append(s.timers, rec)
	s.tunlock()
	return tm
}

// Yield is a plain scheduling point (no-op outside a task).
//
//go:norace
func Yield() {
	s, t := Current()
	if t == nil {
		return
	}
	s.park(t, OpPlain, nil)
}

var libFallback = NewRand(0x5eed)

// LibUint64 serves the package-level functions of math/rand in instrumented code (simrand): a
// stream of the current run, seeded from the run seed (Config.AuxSeed); outside a run a
// fixed process-wide stream.
//
//go:norace
func LibUint64() uint64 {
	s := cur()
	if s == nil {
		return libFallback.Uint64()
	}
	if s.lib == nil {
		s.lib = NewRand(SplitMix64(s.cfg.AuxSeed ^ 0x6c62272e07bb0142))
		s.St.LibRandStreams++
	}
	return s.lib.Uint64()
}

// MapOrderIntn serves simiter.Keys: a value in [0,n) from a stream of the current run seeded
// from the run seed (Config.AuxSeed); outside a run always n-1 (which leaves the sorted order).
//
//go:norace
func MapOrderIntn(n int) int {
	s := cur()
	if s == nil || n <= 1 {
		return n - 1
	}
	if s.ord == nil {
		s.ord = NewRand(SplitMix64(s.cfg.AuxSeed ^ 0x3c6ef372fe94f82b))
	}
	s.St.MapRanges++
	return s.ord.Intn(n)
}

// GOMAXPROCS / NumCPU are what instrumented runtime.GOMAXPROCS / runtime.NumCPU call: the
// parallelism of the machine is environment, and code that sizes something by it (a semaphore, a
// shard count) must behave the same in every worker process for a run to be repeatable. The
// value is drawn per run from the run seed (1, 2, 4 or 16); outside a run it is 4. Setting it is
// accepted and ignored.
//
//go:norace
func GOMAXPROCS(n int) int { return NumCPU() }

//go:norace
func NumCPU() int {
	s := cur()
	if s == nil {
		return 4
	}
	return []int{1, 2, 4, 16}[SplitMix64(s.cfg.AuxSeed^0x5be0cd19137e2179)%4]
}

// holdPoints: scheduling points right AFTER a lock has been acquired. For blocking locks they
// add nothing (whoever wants the lock is disabled while it is held), which is why they are off by
// default; but a non-blocking TryLock/TryRLock can observe "somebody is inside a critical section",
// a state that scheduling at acquisitions alone never shows an observer. simgen switches them on
// (a generated init in the instrumented copy) when the code under test uses TryLock or TryRLock.
var holdPoints bool

// EnableHoldPoints is called from the generated file of an instrumented copy that uses TryLock.
func EnableHoldPoints() { holdPoints = true }

// HoldPoint is a scheduling point taken while holding a lock that was just acquired.
//
//go:norace
func HoldPoint() {
	if !holdPoints {
		return
	}
	s, t := Current()
	if t == nil {
		return
	}
	s.St.HoldPoints++
	s.park(t, OpPlain, nil)
}

// RunEpoch identifies the current simulated run (0 outside a run).
//
//go:norace
func RunEpoch() uint64 {
	s := cur()
	if s == nil {
		return 0
	}
	return s.epoch
}

// PoolDrops reports whether, in this run, the sync.Pool stand-in drops what is put into it
// (one run in four, decided by the run seed). Outside a run: never.
//
//go:norace
func PoolDrops() bool {
	s := cur()
	if s == nil {
		return false
	}
	if s.poolMode == 0 {
		s.poolMode = 1
		if SplitMix64(s.cfg.AuxSeed^0x1f83d9abfb41bd6b)%4 == 0 {
			s.poolMode = 2
		}
	}
	return s.poolMode == 2
}

// AtomicYield is the scheduling point the simatomic shim takes before every atomic operation.
//
//go:norace
func AtomicYield() {
	s, t := Current()
	if t == nil {
		return
	}
	s.St.AtomicOps++
	s.park(t, OpPlain, nil)
}

// Gosched is what an instrumented runtime.Gosched calls. It is a scheduling point; and because
// simulated time stands still while any task is runnable, a task that spins on the clock
// ("for time.Now().Before(deadline) { runtime.Gosched() }") would spin for ever: from the fourth
// consecutive Gosched on, the call also lets simulated time pass (1 us, doubling up to ~1 ms),
// which is what a spinning goroutine experiences on a real machine.
func Gosched() {
	s, t := Current()
	if t == nil {
		runtime.Gosched()
		return
	}
	n := goschedSpin(s, t, true)
	if n > 3 {
		sh := n - 4
		if sh > 10 {
			sh = 10
		}
		Sleep(time.Microsecond << uint(sh))
	} else {
		Yield()
	}
	goschedSpin(s, t, false)
}

//go:norace
func goschedSpin(s *Sim, t *Task, enter bool) int {
	t.inGosched = enter
	if enter {
		t.spin++
		s.St.Goscheds++
	}
	return t.spin
}

// PreChan / PostChan bracket channel operations in instrumented code.
//
//go:norace
func PreChan() {
	s, t := Current()
	if t == nil {
		return
	}
	s.park(t, OpPreChan, nil)
}

//go:norace
func PostChan() {
	s, t := Current()
	if t == nil {
		return
	}
	s.park(t, OpPostChan, nil)
}

// Sleep is what an instrumented time.Sleep calls.
func Sleep(d time.Duration) {
	PreChan()
	time.Sleep(d)
	PostChan()
}

// SetFinalizer replaces runtime.SetFinalizer in instrumented code: GC timing is
// nondeterminism no property depends on, so nothing is registered.
func SetFinalizer(obj any, finalizer any) {}

// Stamp returns the next value of the global event counter.
//
//go:norace
func Stamp() uint64 {
	s := cur()
	if s == nil {
		return 0
	}
	s.seq++
	return s.seq
}

// OpBegin / OpEnd let the harness mark the extent of one public call (probes only).
//
//go:norace
func OpBegin() {
	_, t := Current()
	if t != nil {
		t.acqInOp = 0
		t.inOp = true
	}
}

//go:norace
func OpEnd() {
	_, t := Current()
	if t != nil {
		t.inOp = false
	}
}

// RecordFatal notes a misuse that the real sync package answers with an unrecoverable fatal error.
//
//go:norace
func (s *Sim) RecordFatal(t *Task, msg string) {
	name := "root"
	if t != nil {
		name = fmt.Sprintf("task%d", t.ID)
	}
	s.Fatal = append(s.Fatal, name+": "+msg)
}

// ---- scheduler side (runs on the goroutine that called New) ----

//go:norace
func (s *Sim) wait() {
	raceDisable()
	s.cfg.Wait()
	raceEnable()
}

//go:norace
func (s *Sim) clientsDone() bool {
	for i := 0; i < s.ntasks; i++ {
		t := s.tasks[i]
		if t.Client && t.state != stDone {
			return false
		}
	}
	return true
}

//go:norace
func (s *Sim) eligible(now int64) (mask uint64, list []*Task) {
	s.held = 0
	for i := 0; i < s.ntasks; i++ {
		t := s.tasks[i]
		if t.state != stParked {
			continue
		}
		if t.obj != nil && !t.obj.SimEnabled(t.op, t) {
			continue
		}
		if now < t.stallUntil || now < s.frozenUntil {
			s.held++ // runnable, held back only by an injected stall or clock jump
			continue
		}
		mask ^= 1 << (uint(i) % 64) // ids above 63 fold onto the same 64 bits (replay compares the folded masks)
		list = append(list, t)
	}
	return
}

//go:norace
func inList(list []*Task, id int) bool {
	for _, t := range list {
		if t.ID == id {
			return true
		}
	}
	return false
}

//go:norace
func (s *Sim) probes() {
	// two tasks parked on the same object; reader refused by a pending writer
	for i := 0; i < s.ntasks; i++ {
		t := s.tasks[i]
		if t.state != stParked || t.obj == nil {
			continue
		}
		if t.op == OpRLock && !t.obj.SimEnabled(t.op, t) {
			if pw, ok := t.obj.(interface{ SimWriterPending() bool }); ok && pw.SimWriterPending() {
				s.St.ReaderRefuse++
			}
		}
		for j := i + 1; j < s.ntasks; j++ {
			u := s.tasks[j]
			if u.state == stParked && u.obj == t.obj {
				s.St.SameLockWait++
			}
		}
	}
}

//go:norace
func (s *Sim) release(t *Task) {
	t.state = stRunning
	t.steps++
	raceDisable()
	t.gate <- struct{}{}
	raceEnable()
}

func (s *Sim) mix(a, b, c uint64) {
	h := s.St.Sig
	for _, v := range [3]uint64{a, b, c} {
		h ^= v
		h *= 1099511628211
	}
	s.St.Sig = h
}

// Run drives the tasks until every client task has finished, a deadlock/hang
// is detected, or a bound is hit.
//
//go:norace
func (s *Sim) Run() {
	for {
		s.wait()
		if s.tooMany {
			s.End, s.EndDetail = EndStepLimit, "more than MaxTasks tasks"
			break
		}
		if s.clientsDone() {
			s.End = EndOK
			break
		}
		if s.steps >= s.cfg.MaxSteps {
			s.End, s.EndDetail = EndStepLimit, fmt.Sprintf("%d steps", s.steps)
			break
		}
		now := time.Now()
		mask, list := s.eligible(now.UnixNano())
		if len(list) == 0 {
			if !s.idle(now) {
				s.End = EndDeadlock
				s.EndDetail = s.waitForReport()
				break
			}
			continue
		}
		s.probes()
		if !s.decide(mask, list, now) {
			break
		}
	}
	s.St.Steps = s.steps
	s.St.SimNanos = int64(time.Since(s.start))
}

//go:norace
func (s *Sim) idle(now time.Time) bool {
	s.St.IdleWaits++
	if s.held > 0 {
		// a runnable task is being held back by an injected stall or clock jump: that is not a hang,
		// however long it lasts; the fault's own timer will poke the scheduler
		s.lastProgress = now
		raceDisable()
		select {
		case <-s.poke:
		default:
		}
		<-s.poke
		raceEnable()
		return true
	}
	left := s.cfg.Horizon - now.Sub(s.lastProgress)
	if left <= 0 {
		return false
	}
	// only the simulator's own channel traffic is hidden from the race detector; the timer is created
	// outside that region (package time synchronises its lazy initialisation with a sync.Once)
	tm := time.NewTimer(left)
	raceDisable()
	select {
	case <-s.poke:
	default:
	}
	ok := true
	select {
	case <-s.poke:
		tm.Stop()
	case <-tm.C:
		ok = false
	}
	raceEnable()
	if !ok {
		// a library timer due at the very same instant as the horizon must win: let everything that
		// fired settle, then look for its poke
		s.wait()
		raceDisable()
		select {
		case <-s.poke:
			ok = true
		default:
		}
		raceEnable()
	}
	return ok
}

//go:norace
func (s *Sim) waitForReport() string {
	out := ""
	for i := 0; i < s.ntasks; i++ {
		t := s.tasks[i]
		if t.state == stDone || (t.state == stCreated) {
			continue
		}
		kind := "daemon"
		if t.Client {
			kind = "client"
		}
		what := ""
		switch t.state {
		case stParked:
			what = "waits at " + t.op.String()
			if t.obj != nil {
				what += fmt.Sprintf(" obj%d", t.obj.SimObjID())
				if d, ok := t.obj.(interface{ SimDescribe() string }); ok {
					what += "(" + d.SimDescribe() + ")"
				}
			}
		case stRunning:
			what = "blocked in an operation the simulator does not model (channel/timer)"
		}
		out += fmt.Sprintf("%s task%d[%s] %s; ", kind, t.ID, t.Name, what)
	}
	return out
}

//go:norace
func (s *Sim) decide(mask uint64, list []*Task, now time.Time) bool {
	var d Decision
	d.Enabled = mask
	if s.cfg.Replay != nil {
		if s.replayPos < len(s.cfg.Replay) {
			d = s.cfg.Replay[s.replayPos]
			s.replayPos++
			ok := d.Task >= 0 && d.Task < s.ntasks && inList(list, d.Task)
			if !s.cfg.Lenient && (d.Enabled != mask || !ok) {
				s.End = EndDiverged
				s.EndDetail = fmt.Sprintf("step %d: recorded enabled=%b chosen=%d, now enabled=%b", s.steps, d.Enabled, d.Task, mask)
				return false
			}
			if !ok {
				d = Decision{Kind: DRelease, Task: s.fallback(list).ID}
			}
			d.Enabled = mask
		} else {
			if !s.cfg.Lenient {
				s.End = EndDiverged
				s.EndDetail = fmt.Sprintf("step %d: recorded decisions exhausted", s.steps)
				return false
			}
			d = Decision{Kind: DRelease, Task: s.fallback(list).ID, Enabled: mask}
		}
	} else {
		d = s.policy(mask, list)
	}
	s.trace = append(s.trace, d)
	s.steps++
	t := s.tasks[d.Task]
	switch d.Kind {
	case DStall:
		t.stallUntil = now.UnixNano() + d.Delta
		s.St.Stalls++
		if t.op == OpPostChan || (t.op == OpStart && t.Timer) {
			s.St.StallsTimer++
		}
		s.mix(uint64(t.ID)+1000, uint64(d.Delta), 1)
		time.AfterFunc(time.Duration(d.Delta), s.pokeNB)
	case DJump:
		s.frozenUntil = now.UnixNano() + d.Delta
		s.St.Jumps++
		s.mix(9999, uint64(d.Delta), 2)
		time.AfterFunc(time.Duration(d.Delta), s.pokeNB)
	default:
		if s.cur != nil && s.cur != t && s.cur.state == stParked && inList(list, s.cur.ID) {
			s.St.Switches++
			if s.cur.inOp && s.cur.acqInOp > 0 {
				s.St.MidOpSwitch++
			}
		}
		oid := 0
		if t.obj != nil {
			oid = t.obj.SimObjID()
		}
		s.mix(uint64(t.ID), uint64(t.op), uint64(oid))
		if t.Client {
			s.lastProgress = now
		}
		s.cur = t
		s.release(t)
	}
	return true
}

//go:norace
func (s *Sim) fallback(list []*Task) *Task {
	for _, t := range list {
		if t == s.cur {
			return t
		}
	}
	return list[0]
}

//go:norace
func (s *Sim) policy(mask uint64, list []*Task) Decision {
	r := s.rng
	if s.cfg.TimeFaults && s.steps < s.cfg.FaultSteps {
		if s.cfg.JumpP > 0 && len(s.cfg.JumpDeltas) > 0 && r.Bool(s.cfg.JumpP) {
			return Decision{Kind: DJump, Task: list[0].ID, Delta: int64(s.cfg.JumpDeltas[r.Intn(len(s.cfg.JumpDeltas))]), Enabled: mask}
		}
		if s.cfg.StallP > 0 && len(s.cfg.Deltas) > 0 && r.Bool(s.cfg.StallP) {
			t := list[r.Intn(len(list))]
			return Decision{Kind: DStall, Task: t.ID, Delta: int64(s.cfg.Deltas[r.Intn(len(s.cfg.Deltas))]), Enabled: mask}
		}
	}
	var t *Task
	switch s.cfg.Policy {
	case PolPCT:
		for _, cp := range s.pctChange {
			if cp == s.steps {
				best := highest(list)
				s.pctLow--
				best.pri = s.pctLow
			}
		}
		t = highest(list)
	case PolSticky:
		t = nil
		for _, u := range list {
			if u == s.cur {
				t = u
			}
		}
		if t == nil || (len(list) > 1 && r.Bool(s.cfg.PreemptP)) {
			if t != nil {
				// choose among the others
				k := r.Intn(len(list) - 1)
				for _, u := range list {
					if u == t {
						continue
					}
					if k == 0 {
						t = u
						break
					}
					k--
				}
			} else {
				t = list[r.Intn(len(list))]
			}
		}
	default:
		t = list[r.Intn(len(list))]
	}
	return Decision{Kind: DRelease, Task: t.ID, Enabled: mask}
}

//go:norace
func highest(list []*Task) *Task {
	best := list[0]
	for _, u := range list[1:] {
		if u.pri > best.pri {
			best = u
		}
	}
	return best
}

// Teardown reaps every surviving task so that the synctest bubble can end:
// pending timers are stopped, parked tasks are released with the kill flag
// (runtime.Goexit, so deferred unlocks run against tolerant shims), tasks blocked
// on real timers are given simulated time to reach a scheduling point. It
// returns the number of tasks that could not be reaped.
//
//go:norace
func (s *Sim) Teardown() int {
	s.frozenUntil = 0
	for round := 0; round < 50; round++ {
		s.wait()
		progress := false
		remaining := 0
		for i := 0; i < s.ntasks; i++ {
			t := s.tasks[i]
			switch t.state {
			case stCreated:
				if t.Timer && t.timer != nil {
					// a pending arming is cancelled; after the wait above a firing that had begun has
					// reached its first park and taken its task, so what is still in this state never starts
					t.timer.Stop()
					t.state = stDone
					progress = true
				} else {
					remaining++
				}
			case stParked:
				t.kill = true
				s.release(t)
				s.wait()
				progress = true
			case stRunning:
				remaining++
			}
		}
		if remaining == 0 && !progress {
			return 0
		}
		if !progress {
			// everything left is blocked on something real: let simulated time pass
			tm := time.NewTimer(teardownHorizon)
			raceDisable()
			select {
			case <-s.poke:
			default:
			}
			fired := false
			select {
			case <-s.poke:
				tm.Stop()
			case <-tm.C:
				fired = true
			}
			raceEnable()
			if fired {
				return remaining
			}
		}
	}
	n := 0
	for i := 0; i < s.ntasks; i++ {
		if s.tasks[i].state != stDone {
			n++
		}
	}
	return n
}

// TaskPanics lists panics that escaped from library-created tasks (client tasks
// recover their own).
//
//go:norace
func (s *Sim) TaskPanics() []string {
	var out []string
	for i := 0; i < s.ntasks; i++ {
		t := s.tasks[i]
		if t.panicVal != nil {
			out = append(out, fmt.Sprintf("task%d[%s]: %v", t.ID, t.Name, t.panicVal))
		}
	}
	return out
}

// TaskPanicStacks is TaskPanics with stacks.
//
//go:norace
func (s *Sim) TaskPanicStacks() []string {
	var out []string
	for i := 0; i < s.ntasks; i++ {
		t := s.tasks[i]
		if t.panicVal != nil {
			out = append(out, fmt.Sprintf("task%d[%s]: %v\n%s", t.ID, t.Name, t.panicVal, t.panicStack))
		}
	}
	return out
}
