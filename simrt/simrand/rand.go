// Package simrand is the simulator's drop-in replacement for math/rand in the instrumented
// scratch copy of the code under test: the package-level functions (which the real package
// seeds randomly at start-up) draw from a stream that is a pure function of the run seed, so a
// run stays exactly repeatable even if the code under test randomises something (jitter, shuffles).
// Explicit generators (rand.New(rand.NewSource(seed))) are the real ones.
package simrand

import (
	"math"
	"math/rand"

	"verif/simrt"
)

type (
	Rand     = rand.Rand
	Source   = rand.Source
	Source64 = rand.Source64
	Zipf     = rand.Zipf
)

func New(src Source) *Rand                                     { return rand.New(src) }
func NewSource(seed int64) Source                              { return rand.NewSource(seed) }
func NewZipf(r *Rand, s float64, v float64, imax uint64) *Zipf { return rand.NewZipf(r, s, v, imax) }

// Seed is accepted and ignored: the stream belongs to the simulator.
func Seed(seed int64) {}

func u64() uint64 { return simrt.LibUint64() }

func Uint64() uint64 { return u64() }
func Uint32() uint32 { return uint32(u64() >> 32) }
func Int63() int64   { return int64(u64() >> 1) }
func Int31() int32   { return int32(u64() >> 33) }
func Int() int       { return int(uint(u64()) >> 1) }

func Int63n(n int64) int64 {
	if n <= 0 {
		panic("invalid argument to Int63n")
	}
	return int64(u64() % uint64(n))
}

func Int31n(n int32) int32 {
	if n <= 0 {
		panic("invalid argument to Int31n")
	}
	return int32(u64() % uint64(n))
}

func Intn(n int) int {
	if n <= 0 {
		panic("invalid argument to Intn")
	}
	return int(u64() % uint64(n))
}

func Float64() float64 { return float64(u64()>>11) / float64(1<<53) }
func Float32() float32 { return float32(u64()>>40) / float32(1<<24) }

func Perm(n int) []int {
	p := make([]int, n)
	for i := range p {
		p[i] = i
	}
	for i := n - 1; i > 0; i-- {
		j := Intn(i + 1)
		p[i], p[j] = p[j], p[i]
	}
	return p
}

func Shuffle(n int, swap func(i, j int)) {
	if n < 0 {
		panic("invalid argument to Shuffle")
	}
	for i := n - 1; i > 0; i-- {
		swap(i, Intn(i+1))
	}
}

func Read(p []byte) (n int, err error) {
	for i := range p {
		p[i] = byte(u64())
	}
	return len(p), nil
}

// NormFloat64 and ExpFloat64: simple inversion / Box-Muller over the same stream.
func NormFloat64() float64 {
	u1, u2 := 1-Float64(), Float64()
	return math.Sqrt(-2*math.Log(u1)) * math.Cos(2*math.Pi*u2)
}

func ExpFloat64() float64 { return -math.Log(1 - Float64()) }
