package simrt

import (
	"os"
	"unsafe"
)

// Finding the task of the calling goroutine. Go has no goroutine-local storage; the portable way
// (parsing the goroutine id out of runtime.Stack) costs a full stack walk, about 3-6 us under the
// race detector, at every scheduling point - a third of a worker's CPU time. The runtime does keep
// one pointer per goroutine for the profiler's labels, and exports accessors for runtime/pprof;
// the simulator stores the *Task there. (Nothing in the harness uses profiler labels; with
// VERIF_GOID=1, or while CPU profiling, the portable way is used instead.)

//go:linkname runtimeGetProfLabel runtime/pprof.runtime_getProfLabel
func runtimeGetProfLabel() unsafe.Pointer

//go:linkname runtimeSetProfLabel runtime/pprof.runtime_setProfLabel
func runtimeSetProfLabel(labels unsafe.Pointer)

var useGoid = os.Getenv("VERIF_GOID") != ""

// checkGid (VERIF_CHECKGID=1) cross-checks every label-slot lookup against the goroutine id.
var checkGid = os.Getenv("VERIF_CHECKGID") != ""

// taskMark is what a task goroutine's label slot points to. The magic word guards against a
// foreign pointer (a real profiler label map) being mistaken for a mark.
type taskMark struct {
	magic uint64
	task  *Task
	sim   *Sim
}

const markMagic = 0x73696d72745f746b

//go:norace
func bindTask(t *Task) {
	t.gid = goid()
	if !useGoid {
		t.mark = &taskMark{magic: markMagic, task: t, sim: cur()}
		runtimeSetProfLabel(unsafe.Pointer(t.mark))
	}
}

//go:norace
func unbindTask() {
	if !useGoid {
		runtimeSetProfLabel(nil)
	}
}

// boundTask returns the task bound to the calling goroutine, or nil.
//
//go:norace
func boundTask(s *Sim) *Task {
	if useGoid {
		g := goid()
		for i := 0; i < s.ntasks; i++ {
			t := s.tasks[i]
			if t.gid == g && t.state != stDone {
				return t
			}
		}
		return nil
	}
	p := runtimeGetProfLabel()
	if checkGid {
		var byID *Task
		g := goid()
		for i := 0; i < s.ntasks; i++ {
			if t := s.tasks[i]; t.gid == g && t.state != stDone {
				byID = t
			}
		}
		var byMark *Task
		for i := 0; i < s.ntasks; i++ {
			if t := s.tasks[i]; p != nil && unsafe.Pointer(t.mark) == p && t.state != stDone {
				byMark = t
			}
		}
		if byID != byMark {
			panic("simrt: label-slot lookup disagrees with goroutine-id lookup")
		}
	}
	if p == nil {
		return nil
	}
	// only a mark of this simulator whose task is still live counts (a goroutine started with a
	// plain go statement inherits its parent's label slot until it binds its own)
	m := (*taskMark)(p)
	if m.magic != markMagic || m.sim != s || m.task == nil || m.task.mark != m || m.task.state == stDone {
		return nil
	}
	return m.task
}
