package simrt

import "reflect"

func isChan(x any) bool {
	if x == nil {
		return false
	}
	return reflect.TypeOf(x).Kind() == reflect.Chan
}

// RangePre is inserted before a `for range x` whose operand may be a channel.
func RangePre(x any) {
	if isChan(x) {
		PreChan()
	}
}

// RangeYield is inserted as the first statement of the body of such a loop and after it.
func RangeYield(x any) {
	if isChan(x) {
		PostChan()
	}
}
