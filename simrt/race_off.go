//go:build !race

package simrt

// RaceBuild reports whether the binary carries the race detector.
const RaceBuild = false

func raceDisable() {}

func raceEnable() {}

// RaceErrors is the number of data races the detector has reported so far in this process.
func RaceErrors() int { return 0 }
