//go:build race

package simrt

import "runtime"

// RaceBuild reports whether the binary carries the race detector.
const RaceBuild = true

//go:norace
func raceDisable() { runtime.RaceDisable() }

//go:norace
func raceEnable() { runtime.RaceEnable() }

// RaceErrors is the number of data races the detector has reported so far in this process.
func RaceErrors() int { return runtime.RaceErrors() }
