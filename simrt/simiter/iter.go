// Package simiter makes iteration over Go maps a seeded choice in the instrumented scratch copy of
// the code under test. The language leaves the order of `for k, v := range m` unspecified and the
// runtime randomises it without a seed; a loop body that contains a scheduling point (a lock, an
// atomic operation) or whose effects depend on the order would make a run unrepeatable. simgen
// rewrites
//
//	for k, v := range m { body }
//
// over a map into
//
//	for _, k := range simiter.Keys(m) { v, ok := m[k]; if !ok { continue }; body }
//
// which is one of the orders the language allows (entries removed before they are reached are
// skipped, entries added during the loop are not visited), drawn per run from the run seed.
// Outside a simulated run (sequential reference executions) the order is the sorted one.
package simiter

import (
	"fmt"
	"reflect"
	"sort"
	"strconv"

	"verif/simrt"
)

// Keys returns the keys of m in the order this run visits them.
func Keys[M ~map[K]V, K comparable, V any](m M) []K {
	keys := make([]K, 0, len(m))
	for k := range m {
		keys = append(keys, k)
	}
	if len(keys) < 2 {
		return keys
	}
	names := make([]string, len(keys))
	for i, k := range keys {
		names[i] = canonical(reflect.ValueOf(k))
	}
	idx := make([]int, len(keys))
	for i := range idx {
		idx[i] = i
	}
	sort.SliceStable(idx, func(a, b int) bool { return names[idx[a]] < names[idx[b]] })
	out := make([]K, len(keys))
	for i, j := range idx {
		out[i] = keys[j]
	}
	// seeded permutation (identity outside a run)
	for i := len(out) - 1; i > 0; i-- {
		j := simrt.MapOrderIntn(i + 1)
		if j != i {
			out[i], out[j] = out[j], out[i]
		}
	}
	return out
}

// canonical renders a key for sorting from its underlying value, never through String()/GoString()
// (a key type may print all its values alike). Pointer-like keys have no seed-independent order:
// they sort by their printed type only, which leaves their relative order to the runtime.
func canonical(v reflect.Value) string {
	switch v.Kind() {
	case reflect.String:
		return "s" + v.String()
	case reflect.Int, reflect.Int8, reflect.Int16, reflect.Int32, reflect.Int64:
		return "i" + fmt.Sprintf("%020d", uint64(v.Int())^(1<<63))
	case reflect.Uint, reflect.Uint8, reflect.Uint16, reflect.Uint32, reflect.Uint64, reflect.Uintptr:
		return "u" + fmt.Sprintf("%020d", v.Uint())
	case reflect.Float32, reflect.Float64:
		return "f" + strconv.FormatFloat(v.Float(), 'e', -1, 64)
	case reflect.Bool:
		return "b" + strconv.FormatBool(v.Bool())
	case reflect.Array, reflect.Struct:
		s := v.Kind().String() + "{"
		n := v.NumField
		if v.Kind() == reflect.Array {
			n = v.Len
		}
		for i := 0; i < n(); i++ {
			if v.Kind() == reflect.Array {
				s += canonical(v.Index(i)) + ","
			} else {
				s += canonical(v.Field(i)) + ","
			}
		}
		return s + "}"
	case reflect.Interface:
		if v.IsNil() {
			return "nil"
		}
		return "I" + v.Elem().Type().String() + ":" + canonical(v.Elem())
	}
	return "?" + v.Type().String()
}
