package simrt

// Latch is a harness-side blocking point: Wait parks the calling task until the
// latch is open (callback_slow "parks until released"); a CountLatch opens when
// its counter reaches zero. Neither is visible to the race detector: they add no
// happens-before edge between the tasks that use them.
type Latch struct {
	epoch uint64
	id    int
	open  bool
}

//go:norace
func (l *Latch) SimEnabled(kind OpKind, t *Task) bool { return l.open }

//go:norace
func (l *Latch) SimObjID() int { return l.id }

//go:norace
func (l *Latch) SimDescribe() string {
	if l.open {
		return "latch open"
	}
	return "latch closed"
}

//go:norace
func (l *Latch) reg(s *Sim) {
	if l.epoch != s.epoch {
		l.epoch = s.epoch
		l.id = s.NewObjID()
	}
}

// Wait parks the calling task until the latch is open.
//
//go:norace
func (l *Latch) Wait() {
	s, t := Current()
	if t == nil {
		return
	}
	l.reg(s)
	s.park(t, OpLatch, l)
}

// Open opens the latch.
//
//go:norace
func (l *Latch) Open() { l.open = true }

// IsOpen reports whether the latch is open.
//
//go:norace
func (l *Latch) IsOpen() bool { return l.open }

// CountLatch opens when its counter is zero.
type CountLatch struct {
	epoch uint64
	id    int
	n     int
}

//go:norace
func (l *CountLatch) SimEnabled(kind OpKind, t *Task) bool { return l.n <= 0 }

//go:norace
func (l *CountLatch) SimObjID() int { return l.id }

//go:norace
func (l *CountLatch) SimDescribe() string { return "count-latch" }

// Add changes the counter.
//
//go:norace
func (l *CountLatch) Add(d int) { l.n += d }

// Wait parks the calling task until the counter is zero.
//
//go:norace
func (l *CountLatch) Wait() {
	s, t := Current()
	if t == nil {
		return
	}
	if l.epoch != s.epoch {
		l.epoch = s.epoch
		l.id = s.NewObjID()
	}
	s.park(t, OpLatch, l)
}
