package simrt

// Rand is the single choice source of a simulated run: workload generation,
// swarm configuration, scheduling and fault decisions all draw from one stream
// that is a pure function of the run seed. (splitmix64 seeding + xoshiro256**.)
type Rand struct {
	s     [4]uint64
	Draws uint64
}

// SplitMix64 is the mixing function used to derive run seeds from (VERIF_SEED, run index).
func SplitMix64(x uint64) uint64 {
	x += 0x9e3779b97f4a7c15
	z := x
	z = (z ^ (z >> 30)) * 0xbf58476d1ce4e5b9
	z = (z ^ (z >> 27)) * 0x94d049bb133111eb
	return z ^ (z >> 31)
}

// RunSeed derives the seed of run number idx of a batch started with VERIF_SEED=base.
func RunSeed(base uint64, idx uint64) uint64 {
	return SplitMix64(SplitMix64(base) ^ SplitMix64(idx*0x9e3779b97f4a7c15+0x1234567))
}

// NewRand returns the stream for one run seed.
func NewRand(seed uint64) *Rand {
	r := &Rand{}
	x := seed
	for i := range r.s {
		x = SplitMix64(x)
		r.s[i] = x
	}
	if r.s[0]|r.s[1]|r.s[2]|r.s[3] == 0 {
		r.s[0] = 1
	}
	return r
}

//go:norace
func rotl(x uint64, k uint) uint64 { return (x << k) | (x >> (64 - k)) }

//go:norace
// Uint64 returns the next 64 random bits.
func (r *Rand) Uint64() uint64 {
	r.Draws++
	s := &r.s
	res := rotl(s[1]*5, 7) * 9
	t := s[1] << 17
	s[2] ^= s[0]
	s[3] ^= s[1]
	s[1] ^= s[2]
	s[0] ^= s[3]
	s[2] ^= t
	s[3] = rotl(s[3], 45)
	return res
}

//go:norace
// Intn returns a value in [0,n). n must be > 0.
func (r *Rand) Intn(n int) int {
	if n <= 1 {
		if n <= 0 {
			panic("simrt.Rand.Intn: n <= 0")
		}
		r.Uint64() // keep the number of draws independent of n
		return 0
	}
	return int(r.Uint64() % uint64(n))
}

//go:norace
// Int63n returns a value in [0,n).
func (r *Rand) Int63n(n int64) int64 {
	if n <= 0 {
		panic("simrt.Rand.Int63n: n <= 0")
	}
	return int64(r.Uint64() % uint64(n))
}

//go:norace
// Float64 returns a value in [0,1).
func (r *Rand) Float64() float64 {
	return float64(r.Uint64()>>11) / float64(1<<53)
}

//go:norace
// Bool returns true with probability p.
func (r *Rand) Bool(p float64) bool { return r.Float64() < p }

//go:norace
// Perm returns a random permutation of 0..n-1.
func (r *Rand) Perm(n int) []int {
	p := make([]int, n)
	for i := range p {
		p[i] = i
	}
	for i := n - 1; i > 0; i-- {
		j := r.Intn(i + 1)
		p[i], p[j] = p[j], p[i]
	}
	return p
}
