package simrt

import (
	"reflect"
	"time"
)

// ---- time.AfterFunc timers that are re-armed (Timer.Reset) or stopped by the code under test ----

// timerRec is what the simulator knows about one time.AfterFunc timer of the code under test.
// queue holds, oldest first, the tasks allocated for firings that have not started yet: AfterFunc
// and every TimerReset that arms the timer anew put one in, every firing takes the oldest out, a
// Stop/Reset that cancels the pending arming takes the youngest back.
type timerRec struct {
	s      *Sim
	f      func()
	parent int
	tm     *time.Timer
	queue  []*Task
	spare  int     // how many of the youngest tasks in queue belong to armings that were cancelled (0 or 1)
	served []*Task // tasks that have served firings (recycled once such a firing is over)
}

//go:norace
func (s *Sim) tlock() {
	raceDisable()
	s.tmu.Lock()
	raceEnable()
}

//go:norace
func (s *Sim) tunlock() {
	raceDisable()
	s.tmu.Unlock()
	raceEnable()
}

// fire is the function the real timer runs (on a goroutine of its own, like any AfterFunc callback).
//
//go:norace
func (r *timerRec) fire() {
	s := r.s
	s.tlock()
	var t *Task
	if len(r.queue) > 0 {
		t = r.queue[0]
		r.queue = r.queue[1:]
	}
	if t != nil {
		r.served = append(r.served, t)
	}
	s.tunlock()
	if t == nil {
		// re-armed behind the simulator's back: allocate now (which task id this firing gets then
		// depends on real timing; counted so that the evidence shows it)
		t = s.newTask("timer", false, true, r.parent)
		if t == nil {
			return
		}
		s.tlock()
		s.St.TimerUnseen++
		t.timer = r.tm
		r.served = append(r.served, t)
		s.tunlock()
	}
	s.taskMain(t, r.f)
}

//go:norace
func (s *Sim) timerRec(tm *time.Timer) *timerRec {
	s.tlock()
	defer s.tunlock()
	for _, r := range s.timers {
		if r.tm == tm {
			return r
		}
	}
	return nil
}

// push appends a task for one more firing: the task of an earlier firing that is over (a timer that
// re-arms itself forever would otherwise use up the task table), otherwise a new one.
// Called from the task that (re)arms the timer.
//
//go:norace
func (r *timerRec) push(me *Task) bool {
	s := r.s
	s.tlock()
	for i, l := range r.served {
		// a firing that is over (a timer re-arming itself from its own callback is still running: not that one)
		if l != me && l.state == stDone {
			r.served = append(r.served[:i], r.served[i+1:]...)
			l.state = stCreated
			l.kill = false
			l.op, l.obj = 0, nil
			r.queue = append(r.queue, l)
			s.tunlock()
			return true
		}
	}
	s.tunlock()
	t := s.newTask("timer", false, true, r.parent)
	if t == nil {
		return false
	}
	s.tlock()
	t.timer = r.tm
	r.queue = append(r.queue, t)
	s.tunlock()
	return true
}

// TimerReset is what an instrumented (*time.Timer).Reset calls.
//
//go:norace
func TimerReset(tm *time.Timer, d time.Duration) bool {
	s, me := Current()
	if s == nil || tm == nil {
		return tm.Reset(d)
	}
	r := s.timerRec(tm)
	if r == nil {
		return tm.Reset(d) // a channel timer (time.NewTimer): nothing runs when it fires
	}
	// Stop first: whether an arming was pending decides whether its task is still waiting in the queue
	active := tm.Stop()
	s.tlock()
	s.St.TimerResets++
	if active {
		r.spare++
	}
	reuse := r.spare > 0
	if reuse {
		r.spare-- // the task of the cancelled arming (the youngest in the queue) serves the new one
	}
	s.tunlock()
	if !reuse && !r.push(me) {
		return active // task table full: the run ends as inconclusive
	}
	tm.Reset(d)
	return active
}

// TimerStop is what an instrumented (*time.Timer).Stop calls.
//
//go:norace
func TimerStop(tm *time.Timer) bool {
	s, _ := Current()
	if s == nil || tm == nil {
		return tm.Stop()
	}
	r := s.timerRec(tm)
	active := tm.Stop()
	if r == nil {
		return active
	}
	s.tlock()
	s.St.TimerStops++
	if active {
		r.spare++ // its task stays in the queue for the next Reset
	}
	s.tunlock()
	return active
}

// ---- select ----

// SelCase is one communication clause of a select statement in instrumented code.
type SelCase interface {
	selCase() reflect.SelectCase
	selDone(v reflect.Value, ok bool)
}

// RecvC is a receive clause; it carries the received value, typed, to the clause body.
type RecvC[T any] struct {
	ch reflect.Value
	v  T
	ok bool
}

// RecvFrom builds the receive clause `case ... <-ch`.
func RecvFrom[T any](ch <-chan T) *RecvC[T] { return &RecvC[T]{ch: reflect.ValueOf(ch)} }

func (r *RecvC[T]) selCase() reflect.SelectCase {
	return reflect.SelectCase{Dir: reflect.SelectRecv, Chan: r.ch}
}

func (r *RecvC[T]) selDone(v reflect.Value, ok bool) {
	r.ok = ok
	if v.IsValid() {
		reflect.ValueOf(&r.v).Elem().Set(v)
	}
}

// Got1 / Got2 return what the clause received.
func (r *RecvC[T]) Got1() T         { return r.v }
func (r *RecvC[T]) Got2() (T, bool) { return r.v, r.ok }

// SendC is a send clause under construction: SendTo(ch).Val(v).
type SendC[T any] struct{ ch chan<- T }

// SendTo starts the send clause `case ch <- v`.
func SendTo[T any](ch chan<- T) SendC[T] { return SendC[T]{ch} }

type sendCase struct{ ch, v reflect.Value }

// Val completes the send clause (v is converted to the element type as in the statement itself).
func (s SendC[T]) Val(v T) SelCase {
	return &sendCase{ch: reflect.ValueOf(s.ch), v: reflect.ValueOf(&v).Elem()}
}

func (c *sendCase) selCase() reflect.SelectCase {
	return reflect.SelectCase{Dir: reflect.SelectSend, Chan: c.ch, Send: c.v}
}
func (c *sendCase) selDone(reflect.Value, bool) {}

// Select executes a select statement of instrumented code and returns the index of the clause that
// proceeded, -1 for default. The Go runtime picks among several ready clauses with its own random
// numbers; here the ready clauses are polled one by one in an order drawn from a stream of the run
// (seeded from Config.AuxSeed), and only when none is ready and there is no default does the task
// block on all of them at once, as the statement would (the clause that becomes ready first wins).
func Select(hasDefault bool, cases ...SelCase) int {
	rc := make([]reflect.SelectCase, len(cases), len(cases)+1)
	for i, c := range cases {
		rc[i] = c.selCase()
	}
	s, t := Current()
	if t == nil || len(cases) == 0 {
		if hasDefault {
			rc = append(rc, reflect.SelectCase{Dir: reflect.SelectDefault})
		}
		i, v, ok := reflect.Select(rc)
		if i == len(cases) {
			return -1
		}
		cases[i].selDone(v, ok)
		return i
	}
	order := selectOrder(s, len(cases))
	poll := make([]reflect.SelectCase, 2)
	poll[1] = reflect.SelectCase{Dir: reflect.SelectDefault}
	for _, i := range order {
		poll[0] = rc[i]
		if j, v, ok := reflect.Select(poll); j == 0 {
			cases[i].selDone(v, ok)
			return i
		}
	}
	if hasDefault {
		return -1
	}
	noteSelectBlocked(s)
	i, v, ok := reflect.Select(rc)
	cases[i].selDone(v, ok)
	return i
}

//go:norace
func selectOrder(s *Sim, n int) []int {
	s.tlock()
	defer s.tunlock()
	if s.selr == nil {
		s.selr = NewRand(SplitMix64(s.cfg.AuxSeed ^ 0x51ec7a5e1ec7c0de))
	}
	s.St.Selects++
	order := make([]int, n)
	for i := range order {
		order[i] = i
	}
	for i := n - 1; i > 0; i-- {
		j := s.selr.Intn(i + 1)
		order[i], order[j] = order[j], order[i]
	}
	return order
}

//go:norace
func noteSelectBlocked(s *Sim) {
	s.tlock()
	s.St.SelectBlocked++
	s.tunlock()
}
