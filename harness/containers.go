package harness

import (
	"fmt"
	"reflect"
	"sort"
	"strings"
	"time"

	"github.com/esimov/gogu/bstree"
	"github.com/esimov/gogu/cache"
	"github.com/esimov/gogu/heap"
	"github.com/esimov/gogu/queue"
	"github.com/esimov/gogu/stack"
	"github.com/esimov/gogu/trie"

	"verif/simrt"
)

// OpCall is one call of a public method: the op name and up to two small integer arguments.
type OpCall struct {
	Op string `json:"op"`
	A  int    `json:"a,omitempty"`
	B  int    `json:"b,omitempty"`
}

func (o OpCall) String() string { return fmt.Sprintf("%s(%d,%d)", o.Op, o.A, o.B) }

// opDesc describes one catalogue entry of a container type.
type opDesc struct {
	name   string
	nargs  int  // how many of A,B are meaningful
	single bool // a single-element operation in the sense of C02
	bRange int  // 0: B is a value (unique per call when possible); >0: B in [0,bRange)
	aRange int  // A in [0,aRange); 0 => alphabet size
}

// instance is one shared container under test.
type instance interface {
	// call executes the operation and returns its result rendered as a string
	// (values, errors as presence/absence). Panics propagate.
	call(o OpCall) string
	// observe returns what a caller can see of the final state, non-destructively first,
	// then by draining. It is also the "still usable" sanity sequence of C01.
	observe() []string
}

type adapter struct {
	name string
	ops  []opDesc
	// covers lists the real method names the hand-written catalogue exercises; any other exported
	// method of the type with a simple signature is discovered by reflection and added as an
	// "auto:" entry (C01 only), so that a newly added public method is not silently outside the check
	covers []string
	alpha  int // size of the key/value alphabet used for A
	// build creates a fresh instance holding the initial content. cfg selects a type-specific variant.
	build func(init []int, cfg int) instance
	ncfg  int
}

// maxAlpha is the largest key/value alphabet a run may draw (the observers look at all of it).
const maxAlpha = 8

func errStr(err error) string {
	if err != nil {
		return "err"
	}
	return "ok"
}

var trieKeys = []string{"a", "ab", "b", "abc", "abd", "ba", "c", "abcd"}
var cacheKeys = []string{"k0", "k1", "k2", "k3", "k4", "k5", "k6", "k7"}

func tk(i int) string { return trieKeys[((i%len(trieKeys))+len(trieKeys))%len(trieKeys)] }
func ck(i int) string { return cacheKeys[((i%len(cacheKeys))+len(cacheKeys))%len(cacheKeys)] }

// ---------------------------------------------------------------- consumers
// "Use what was handed back", outside any lock. These functions are the
// legitimate second party of a race report on data returned to the caller.

func consumeSlice(v []int) string {
	s := 0
	for i := range v {
		s = s*31 + v[i]
	}
	return fmt.Sprintf("n=%d h=%d", len(v), s)
}

func consumeSliceSorted(v []int) string {
	c := append([]int(nil), v...)
	sort.Ints(c)
	return fmt.Sprint(c)
}

func consumeQueuer(q trie.Queuer[string]) string {
	var out []string
	n := q.Size()
	for i := 0; i < n+2; i++ {
		k, err := q.Dequeue()
		if err != nil {
			break
		}
		out = append(out, k)
	}
	return strings.Join(out, ",")
}

// ---------------------------------------------------------------- heap

type heapInst struct {
	h     *heap.Heap[int]
	other *heap.Heap[int]
	min   bool
}

func lessInt(a, b int) bool { return a < b }
func moreInt(a, b int) bool { return a > b }

func (x *heapInst) call(o OpCall) string {
	switch o.Op {
	case "Size":
		return fmt.Sprint(x.h.Size())
	case "IsEmpty":
		return fmt.Sprint(x.h.IsEmpty())
	case "Clear":
		x.h.Clear()
		return ""
	case "Peek":
		return fmt.Sprint(x.h.Peek())
	case "GetValues":
		return consumeSlice(x.h.GetValues())
	case "GetValuesLater":
		// the caller keeps what was handed back and reads it later, holding no lock
		v := x.h.GetValues()
		simrt.Yield()
		return consumeSlice(v)
	case "Push":
		x.h.Push(o.A)
		return ""
	case "Push2":
		x.h.Push(o.A, o.B%3+1)
		return ""
	case "Pop":
		return fmt.Sprint(x.h.Pop())
	case "Delete":
		ok, err := x.h.Delete(o.A)
		return fmt.Sprint(ok, errStr(err))
	case "Convert":
		if o.A%2 == 0 {
			x.h.Convert(lessInt)
		} else {
			x.h.Convert(moreInt)
		}
		return ""
	case "Merge":
		n := x.h.Merge(x.other)
		return consumeSliceSorted(n.GetValues())
	case "MergeInto":
		n := x.other.Merge(x.h)
		return consumeSliceSorted(n.GetValues())
	case "Meld":
		n := x.h.Meld(x.other)
		return consumeSliceSorted(n.GetValues())
	case "MeldInto":
		n := x.other.Meld(x.h)
		return consumeSliceSorted(n.GetValues())
	}
	panic("harness: unknown heap op " + o.Op)
}

func (x *heapInst) observe() []string {
	out := []string{
		"Size=" + fmt.Sprint(x.h.Size()),
		"IsEmpty=" + fmt.Sprint(x.h.IsEmpty()),
		"Peek=" + fmt.Sprint(x.h.Peek()),
		"Values=" + consumeSliceSorted(x.h.GetValues()),
	}
	var drained []string
	for i := 0; i < 64 && x.h.Size() > 0; i++ {
		drained = append(drained, fmt.Sprint(x.h.Pop()))
	}
	out = append(out, "Drain="+strings.Join(drained, ","))
	x.h.Push(1)
	out = append(out, "AfterPush="+fmt.Sprint(x.h.Size(), x.h.Peek()))
	return out
}

var heapAdapter = adapter{
	covers: []string{"Size", "IsEmpty", "Clear", "Peek", "GetValues", "Push", "Pop", "Delete", "Convert", "Merge", "Meld"},
	name:   "heap",
	alpha:  3,
	ncfg:   2,
	ops: []opDesc{
		{name: "Size", single: true}, {name: "IsEmpty"}, {name: "Clear", single: true}, {name: "Peek", single: true},
		{name: "GetValues"}, {name: "GetValuesLater"}, {name: "Push", nargs: 1, single: true}, {name: "Push2", nargs: 2, bRange: 3}, {name: "Pop", single: true},
		{name: "Delete", nargs: 1, single: true}, {name: "Convert", nargs: 1, aRange: 2}, {name: "Merge"}, {name: "MergeInto"}, {name: "Meld"}, {name: "MeldInto"},
	},
	build: func(init []int, cfg int) instance {
		comp := lessInt
		if cfg%2 == 1 {
			comp = moreInt
		}
		h := heap.NewHeap(comp)
		for _, v := range init {
			h.Push(v)
		}
		o := heap.NewHeap(comp)
		o.Push(2)
		o.Push(1)
		return &heapInst{h: h, other: o, min: cfg%2 == 0}
	},
}

// ---------------------------------------------------------------- bstree

type bstInst struct{ b *bstree.BsTree[int, int] }

func (x *bstInst) call(o OpCall) string {
	switch o.Op {
	case "Size":
		return fmt.Sprint(x.b.Size())
	case "Get":
		it, err := x.b.Get(o.A)
		return fmt.Sprint(it.Key, it.Val, errStr(err))
	case "Upsert":
		x.b.Upsert(o.A, o.B)
		return ""
	case "Delete":
		return errStr(x.b.Delete(o.A))
	case "Traverse":
		var sb strings.Builder
		x.b.Traverse(func(it bstree.Item[int, int]) { fmt.Fprintf(&sb, "%d=%d ", it.Key, it.Val) })
		return sb.String()
	}
	panic("harness: unknown bstree op " + o.Op)
}

func (x *bstInst) observe() []string {
	out := []string{"Size=" + fmt.Sprint(x.b.Size())}
	for k := 0; k <= maxAlpha; k++ {
		it, err := x.b.Get(k)
		out = append(out, fmt.Sprintf("Get%d=%d,%d,%s", k, it.Key, it.Val, errStr(err)))
	}
	var sb strings.Builder
	x.b.Traverse(func(it bstree.Item[int, int]) { fmt.Fprintf(&sb, "%d=%d ", it.Key, it.Val) })
	out = append(out, "Traverse="+sb.String())
	x.b.Upsert(1, 7)
	it, err := x.b.Get(1)
	out = append(out, fmt.Sprintf("AfterUpsert=%d,%s", it.Val, errStr(err)))
	return out
}

var bstAdapter = adapter{
	covers: []string{"Size", "Get", "Upsert", "Delete", "Traverse"},
	name:   "bstree",
	alpha:  3,
	ncfg:   2,
	ops: []opDesc{
		{name: "Size", single: true}, {name: "Get", nargs: 1, single: true}, {name: "Upsert", nargs: 2, single: true},
		{name: "Delete", nargs: 1, single: true}, {name: "Traverse"},
	},
	build: func(init []int, cfg int) instance {
		comp := lessInt
		if cfg%2 == 1 {
			comp = moreInt
		}
		b := bstree.New[int, int](comp)
		for i, v := range init {
			b.Upsert(v, 900+i)
		}
		return &bstInst{b: b}
	},
}

// ---------------------------------------------------------------- trie

type trieInst struct{ t *trie.Trie[string, int] }

func (x *trieInst) call(o OpCall) string {
	switch o.Op {
	case "Size":
		return fmt.Sprint(x.t.Size())
	case "Contains":
		return fmt.Sprint(x.t.Contains(tk(o.A)))
	case "Put":
		x.t.Put(tk(o.A), o.B)
		return ""
	case "Get":
		v, ok := x.t.Get(tk(o.A))
		return fmt.Sprint(v, ok)
	case "LongestPrefix":
		k, err := x.t.LongestPrefix(tk(o.A) + "z")
		return k + errStr(err)
	case "StartsWith":
		q, err := x.t.StartsWith(tk(o.A))
		return consumeQueuer(q) + errStr(err)
	case "Keys":
		q, err := x.t.Keys()
		return consumeQueuer(q) + errStr(err)
	case "KeysLater":
		q, err := x.t.Keys()
		simrt.Yield()
		return consumeQueuer(q) + errStr(err)
	}
	panic("harness: unknown trie op " + o.Op)
}

func (x *trieInst) observe() []string {
	out := []string{"Size=" + fmt.Sprint(x.t.Size())}
	for i := range trieKeys {
		v, ok := x.t.Get(tk(i))
		out = append(out, fmt.Sprintf("Get%s=%d,%v,%v", tk(i), v, ok, x.t.Contains(tk(i))))
	}
	q, err := x.t.Keys()
	out = append(out, "Keys="+consumeQueuer(q)+errStr(err))
	x.t.Put("zz", 5)
	v, ok := x.t.Get("zz")
	out = append(out, fmt.Sprintf("AfterPut=%d,%v", v, ok))
	return out
}

var trieAdapter = adapter{
	covers: []string{"Size", "Contains", "Put", "Get", "LongestPrefix", "StartsWith", "Keys"},
	name:   "trie",
	alpha:  4,
	ncfg:   2,
	ops: []opDesc{
		{name: "Size", single: true}, {name: "Contains", nargs: 1, single: true}, {name: "Put", nargs: 2, single: true},
		{name: "Get", nargs: 1, single: true}, {name: "LongestPrefix", nargs: 1}, {name: "StartsWith", nargs: 1}, {name: "Keys"}, {name: "KeysLater"},
	},
	build: func(init []int, cfg int) instance {
		var q trie.Queuer[string]
		if cfg%2 == 0 {
			q = queue.New[string]()
		} else {
			q = queue.New[string]()
		}
		t := trie.New[string, int](q)
		for i, v := range init {
			t.Put(tk(v), 900+i)
		}
		return &trieInst{t: t}
	},
}

// ---------------------------------------------------------------- queues and stacks

type fifo interface {
	Enqueue(int)
	Peek() int
	Search(int) bool
	Size() int
	Clear()
}

type queueInst struct {
	q  *queue.Queue[int]
	lq *queue.LQueue[int]
}

func (x *queueInst) f() fifo {
	if x.q != nil {
		return x.q
	}
	return x.lq
}

func (x *queueInst) deq() string {
	if x.q != nil {
		v, err := x.q.Dequeue()
		return fmt.Sprint(v, errStr(err))
	}
	return fmt.Sprint(x.lq.Dequeue())
}

func (x *queueInst) call(o OpCall) string {
	switch o.Op {
	case "Enqueue":
		x.f().Enqueue(o.A)
		return ""
	case "Dequeue":
		return x.deq()
	case "Peek":
		return fmt.Sprint(x.f().Peek())
	case "Search":
		return fmt.Sprint(x.f().Search(o.A))
	case "Size":
		return fmt.Sprint(x.f().Size())
	case "Clear":
		x.f().Clear()
		return ""
	}
	panic("harness: unknown queue op " + o.Op)
}

func (x *queueInst) observe() []string {
	out := []string{"Size=" + fmt.Sprint(x.f().Size()), "Peek=" + fmt.Sprint(x.f().Peek())}
	for v := 1; v <= maxAlpha; v++ {
		out = append(out, fmt.Sprintf("Search%d=%v", v, x.f().Search(v)))
	}
	var d []string
	for i := 0; i < 64 && x.f().Size() > 0; i++ {
		d = append(d, x.deq())
	}
	out = append(out, "Drain="+strings.Join(d, ","))
	x.f().Enqueue(2)
	out = append(out, fmt.Sprintf("AfterEnqueue=%d,%d", x.f().Size(), x.f().Peek()))
	return out
}

var queueOps = []opDesc{
	{name: "Enqueue", nargs: 1, single: true}, {name: "Dequeue", single: true}, {name: "Peek", single: true},
	{name: "Search", nargs: 1, single: true}, {name: "Size", single: true}, {name: "Clear", single: true},
}

var queueCovers = []string{"Enqueue", "Dequeue", "Peek", "Search", "Size", "Clear"}
var stackCovers = []string{"Push", "Pop", "Peek", "Search", "Size"}

var queueAdapter = adapter{name: "queue", alpha: 3, ncfg: 1, ops: append([]opDesc(nil), queueOps...), covers: queueCovers,
	build: func(init []int, cfg int) instance {
		q := queue.New[int]()
		for _, v := range init {
			q.Enqueue(v)
		}
		return &queueInst{q: q}
	}}

var lqueueAdapter = adapter{name: "lqueue", alpha: 3, ncfg: 1, ops: append([]opDesc(nil), queueOps...), covers: queueCovers,
	build: func(init []int, cfg int) instance {
		first := 1
		if len(init) > 0 {
			first = init[0]
		}
		q := queue.NewLinked[int](first)
		if len(init) > 1 {
			for _, v := range init[1:] {
				q.Enqueue(v)
			}
		}
		return &queueInst{lq: q}
	}}

type lifo interface {
	Push(int)
	Pop() int
	Peek() int
	Search(int) bool
	Size() int
}

type stackInst struct{ s lifo }

func (x *stackInst) call(o OpCall) string {
	switch o.Op {
	case "Push":
		x.s.Push(o.A)
		return ""
	case "Pop":
		return fmt.Sprint(x.s.Pop())
	case "Peek":
		return fmt.Sprint(x.s.Peek())
	case "Search":
		return fmt.Sprint(x.s.Search(o.A))
	case "Size":
		return fmt.Sprint(x.s.Size())
	}
	panic("harness: unknown stack op " + o.Op)
}

func (x *stackInst) observe() []string {
	out := []string{"Size=" + fmt.Sprint(x.s.Size()), "Peek=" + fmt.Sprint(x.s.Peek())}
	for v := 1; v <= maxAlpha; v++ {
		out = append(out, fmt.Sprintf("Search%d=%v", v, x.s.Search(v)))
	}
	var d []string
	for i := 0; i < 64 && x.s.Size() > 0; i++ {
		d = append(d, fmt.Sprint(x.s.Pop()))
	}
	out = append(out, "Drain="+strings.Join(d, ","))
	x.s.Push(2)
	out = append(out, fmt.Sprintf("AfterPush=%d,%d", x.s.Size(), x.s.Peek()))
	return out
}

var stackOps = []opDesc{
	{name: "Push", nargs: 1, single: true}, {name: "Pop", single: true}, {name: "Peek", single: true},
	{name: "Search", nargs: 1, single: true}, {name: "Size", single: true},
}

var stackAdapter = adapter{name: "stack", alpha: 3, ncfg: 1, ops: append([]opDesc(nil), stackOps...), covers: stackCovers,
	build: func(init []int, cfg int) instance {
		s := stack.New[int]()
		for _, v := range init {
			s.Push(v)
		}
		return &stackInst{s: s}
	}}

var lstackAdapter = adapter{name: "lstack", alpha: 3, ncfg: 1, ops: append([]opDesc(nil), stackOps...), covers: stackCovers,
	build: func(init []int, cfg int) instance {
		first := 1
		if len(init) > 0 {
			first = init[0]
		}
		s := stack.NewLinked[int](first)
		if len(init) > 1 {
			for _, v := range init[1:] {
				s.Push(v)
			}
		}
		return &stackInst{s: s}
	}}

// ---------------------------------------------------------------- cache (C01/C02)
//
// cfg bits: 1 = janitor goroutine ticking every 10 ms of simulated time; 2 = timed: default
// expiration 20 ms and the calls store under a mix of durations (none / default / 5 ms), so that
// live, expired-but-unpurged and never-expiring entries coexist; 4 = pre-aged: 7 ms of simulated
// time pass after the initial content is stored, so its 5 ms entries are expired and unpurged
// when the concurrent calls start. A "Tick" pseudo-call sleeps 10 ms of simulated time.

const (
	cacheJanitor = 1
	cacheTimed   = 2
	cachePreAged = 4

	cacheDefaultLife = 20 * time.Millisecond // default expiry of the timed configurations
	cacheShortLife   = 5 * time.Millisecond  // the finite per-entry duration
	cacheCleanup     = 10 * time.Millisecond // cleanup interval when the janitor runs
	cachePreAge      = 7 * time.Millisecond  // simulated time that passes before the calls start (pre-aged)
)

// cacheInst is instantiated for several value types (cfg bits 8 and 16): a flaw may show only for
// one of them (the cache itself switches on the value's dynamic type to reject empty strings).
type cacheInst[V any] struct {
	c     *cache.Cache[string, V]
	timed bool
	mk    func(int) V
	rd    func(V) string
}

type cacheVal struct {
	A, B int
	S    string
}

func (x *cacheInst[V]) dur(b int) time.Duration {
	if !x.timed {
		return cache.NoExpiration
	}
	switch ((b % 3) + 3) % 3 {
	case 0:
		return cache.NoExpiration
	case 1:
		return cache.DefaultExpiration
	}
	return cacheShortLife
}

func (x *cacheInst[V]) item(it *cache.Item[V]) string { return x.rd(it.Val()) }

// render is how the value made from b reads when it comes back from the cache; life is for how long
// an entry stored with duration code b lives (ok=false: for ever). Used by the conservation oracle.
func (x *cacheInst[V]) render(b int) string { return x.rd(x.mk(b)) }
func (x *cacheInst[V]) life(b int, def time.Duration) (d time.Duration, finite bool) {
	d = x.dur(b)
	if d == cache.DefaultExpiration {
		d = def
	}
	return d, d > 0
}

func (x *cacheInst[V]) listing(m map[string]*cache.Item[V]) string {
	keys := make([]string, 0, len(m))
	for k := range m {
		keys = append(keys, k)
	}
	sort.Strings(keys)
	var b strings.Builder
	for _, k := range keys {
		fmt.Fprintf(&b, "%s=%s ", k, consumeCacheVal(x.rd, m[k]))
	}
	return b.String()
}

// consumeCacheVal reads an item handed back by the cache (a consumer function: the legitimate
// second party of a race report on data returned to the caller).
func consumeCacheVal[V any](rd func(V) string, it *cache.Item[V]) string { return rd(it.Val()) }

func consumeInt(v int) string         { return fmt.Sprint(v) }
func consumeStr(v string) string      { return v }
func consumeBytes(v []byte) string    { return string(v) }
func consumeStruct(v cacheVal) string { return fmt.Sprint(v.A, v.B, v.S) }

func (x *cacheInst[V]) call(o OpCall) string {
	switch o.Op {
	case "Set":
		return errStr(x.c.Set(ck(o.A), x.mk(o.B), x.dur(o.B)))
	case "SetDefault":
		return errStr(x.c.SetDefault(ck(o.A), x.mk(o.B)))
	case "Get":
		it, err := x.c.Get(ck(o.A))
		return consumeCacheVal(x.rd, it) + errStr(err)
	case "Update":
		return errStr(x.c.Update(ck(o.A), x.mk(o.B), x.dur(o.B)))
	case "Delete":
		return errStr(x.c.Delete(ck(o.A)))
	case "DeleteExpired":
		return errStr(x.c.DeleteExpired())
	case "Flush":
		x.c.Flush()
		return ""
	case "List":
		return x.listing(x.c.List())
	case "ListLater":
		m := x.c.List()
		simrt.Yield()
		return x.listing(m)
	case "GetLater":
		it, err := x.c.Get(ck(o.A))
		simrt.Yield()
		return consumeCacheVal(x.rd, it) + errStr(err)
	case "Count":
		return fmt.Sprint(x.c.Count())
	case "MapToCache":
		return errStr(x.c.MapToCache(map[string]V{ck(o.A): x.mk(o.B)}, x.dur(o.B)))
	case "IsExpired":
		return fmt.Sprint(x.c.IsExpired(ck(o.A)))
	}
	panic("harness: unknown cache op " + o.Op)
}

func (x *cacheInst[V]) observe() []string {
	out := []string{"Count=" + fmt.Sprint(x.c.Count()), "List=" + x.listing(x.c.List())}
	for i := range cacheKeys {
		it, err := x.c.Get(ck(i))
		out = append(out, fmt.Sprintf("Get%s=%s,%s,%v", ck(i), consumeCacheVal(x.rd, it), errStr(err), x.c.IsExpired(ck(i))))
	}
	out = append(out, "CountAfterGets="+fmt.Sprint(x.c.Count()))
	x.c.Update("zz", x.mk(5), cache.NoExpiration)
	it, err := x.c.Get("zz")
	out = append(out, fmt.Sprintf("AfterUpdate=%s,%s", consumeCacheVal(x.rd, it), errStr(err)))
	return out
}

func (x *cacheInst[V]) container() any { return x.c }

func buildCache[V any](init []int, cfg int, mk func(int) V, rd func(V) string) instance {
	exp := time.Duration(cache.NoExpiration)
	if cfg&cacheTimed != 0 {
		exp = cacheDefaultLife
	}
	var cl time.Duration
	if cfg&cacheJanitor != 0 {
		cl = cacheCleanup
	}
	x := &cacheInst[V]{c: cache.New[string, V](exp, cl), timed: cfg&cacheTimed != 0, mk: mk, rd: rd}
	for i, v := range init {
		x.c.Update(ck(v), x.mk(900+i), x.dur(i+2))
	}
	if cfg&cachePreAged != 0 && cfg&cacheTimed != 0 {
		// only ever executed inside a bubble (see timedCfg): simulated, not real, time
		time.Sleep(cachePreAge)
	}
	return x
}

var cacheAdapter = adapter{
	covers: []string{"Set", "SetDefault", "Get", "Update", "Delete", "DeleteExpired", "Flush", "List", "Count", "MapToCache", "IsExpired"},
	name:   "cache",
	alpha:  3,
	ncfg:   32,
	ops: []opDesc{
		{name: "Set", nargs: 2, single: true}, {name: "SetDefault", nargs: 2}, {name: "Get", nargs: 1, single: true},
		{name: "Update", nargs: 2, single: true}, {name: "Delete", nargs: 1, single: true}, {name: "DeleteExpired"},
		{name: "Flush"}, {name: "List"}, {name: "Count", single: true}, {name: "MapToCache", nargs: 2}, {name: "IsExpired", nargs: 1},
		{name: "ListLater"}, {name: "GetLater", nargs: 1},
	},
	build: func(init []int, cfg int) instance {
		switch (cfg >> 3) & 3 {
		case 1:
			return buildCache(init, cfg, func(i int) string { return "s" + fmt.Sprint(i) }, consumeStr)
		case 2:
			// fixed length, so that a buffer-recycling store always fits the old buffer
			return buildCache(init, cfg, func(i int) []byte { return []byte(fmt.Sprintf("b%06d", i)) }, consumeBytes)
		case 3:
			return buildCache(init, cfg, func(i int) cacheVal { return cacheVal{A: i, B: i + 1, S: "x" + fmt.Sprint(i)} }, consumeStruct)
		}
		return buildCache(init, cfg, func(i int) int { return i }, consumeInt)
	},
}

// subject returns the container an instance wraps (for method discovery and "auto:" calls).
func subject(inst instance) any {
	switch x := inst.(type) {
	case *heapInst:
		return x.h
	case *bstInst:
		return x.b
	case *trieInst:
		return x.t
	case *queueInst:
		if x.q != nil {
			return x.q
		}
		return x.lq
	case *stackInst:
		return x.s
	}
	if c, ok := inst.(interface{ container() any }); ok {
		return c.container()
	}
	return nil
}

var durationType = reflect.TypeOf(time.Duration(0))
var errorType = reflect.TypeOf((*error)(nil)).Elem()

func simpleArg(t reflect.Type) bool {
	switch t.Kind() {
	case reflect.Int, reflect.Int64, reflect.String, reflect.Bool:
		return true
	case reflect.Func:
		// a callback: the harness passes a pure one that reads its arguments and returns zero values
		// (true for a bool, so that an iteration goes on)
		return !t.IsVariadic()
	}
	return false
}

// pureCallback synthesises a callback of type t: it reads its arguments (so that data the
// library hands to the callback is consumed like any data handed back) and returns zero
// values, true for bool results.
func pureCallback(t reflect.Type) reflect.Value {
	return reflect.MakeFunc(t, func(args []reflect.Value) []reflect.Value {
		var b strings.Builder
		for _, a := range args {
			renderAuto(&b, a, 0)
		}
		out := make([]reflect.Value, t.NumOut())
		for i := range out {
			out[i] = reflect.Zero(t.Out(i))
			if t.Out(i).Kind() == reflect.Bool {
				out[i] = reflect.ValueOf(true).Convert(t.Out(i))
			}
		}
		return out
	})
}

// discoverAutoOps adds an "auto:<Method>" catalogue entry for every exported method of the
// adapter's container type that the hand-written catalogue does not cover and whose parameters
// are all int, string, bool or time.Duration.
var autoOpsFound, autoOpsSkipped []string

func discoverAutoOps(ad *adapter) {
	inst := ad.build(nil, 0)
	sub := subject(inst)
	if sub == nil {
		return
	}
	cov := map[string]bool{}
	for _, n := range ad.covers {
		cov[n] = true
	}
	t := reflect.TypeOf(sub)
	for i := 0; i < t.NumMethod(); i++ {
		m := t.Method(i)
		if cov[m.Name] || m.Type.IsVariadic() {
			continue
		}
		ok := true
		for j := 1; j < m.Type.NumIn(); j++ {
			if !simpleArg(m.Type.In(j)) {
				ok = false
			}
		}
		if !ok {
			autoOpsSkipped = append(autoOpsSkipped, ad.name+"."+m.Name)
			continue
		}
		autoOpsFound = append(autoOpsFound, ad.name+"."+m.Name)
		n := m.Type.NumIn() - 1
		if n > 2 {
			n = 2
		}
		ad.ops = append(ad.ops, opDesc{name: "auto:" + m.Name, nargs: n})
	}
}

// autoCall calls a discovered method by reflection; results are rendered without addresses, and
// returned slices and maps are read element by element (data handed back to the caller).
func autoCall(inst instance, ad *adapter, o OpCall) string {
	sub := subject(inst)
	m := reflect.ValueOf(sub).MethodByName(strings.TrimPrefix(o.Op, "auto:"))
	if !m.IsValid() {
		panic("harness: discovered method vanished: " + o.Op)
	}
	mt := m.Type()
	args := make([]reflect.Value, mt.NumIn())
	ints := []int{o.A, o.B}
	ni := 0
	for j := range args {
		at := mt.In(j)
		v := reflect.New(at).Elem()
		switch {
		case at == durationType:
			v.SetInt(int64(cache.NoExpiration))
		case at.Kind() == reflect.Int || at.Kind() == reflect.Int64:
			v.SetInt(int64(ints[ni%2]))
			ni++
		case at.Kind() == reflect.String:
			if ad.name == "trie" {
				v.SetString(tk(ints[ni%2]))
			} else {
				v.SetString(ck(ints[ni%2]))
			}
			ni++
		case at.Kind() == reflect.Bool:
			v.SetBool(ints[ni%2]%2 == 0)
			ni++
		case at.Kind() == reflect.Func:
			v = pureCallback(at)
		}
		args[j] = v
	}
	var b strings.Builder
	for _, r := range m.Call(args) {
		renderAuto(&b, r, 0)
		b.WriteByte(' ')
	}
	return b.String()
}

func renderAuto(b *strings.Builder, r reflect.Value, depth int) {
	if !r.IsValid() {
		b.WriteString("nil")
		return
	}
	switch r.Kind() {
	case reflect.Int, reflect.Int8, reflect.Int16, reflect.Int32, reflect.Int64:
		fmt.Fprint(b, r.Int())
	case reflect.Uint, reflect.Uint8, reflect.Uint16, reflect.Uint32, reflect.Uint64:
		fmt.Fprint(b, r.Uint())
	case reflect.String:
		b.WriteString(r.String())
	case reflect.Bool:
		fmt.Fprint(b, r.Bool())
	case reflect.Float32, reflect.Float64:
		fmt.Fprint(b, r.Float())
	case reflect.Slice, reflect.Array:
		fmt.Fprintf(b, "[%d:", r.Len())
		for i := 0; i < r.Len() && i < 64 && depth < 2; i++ {
			renderAuto(b, r.Index(i), depth+1)
			b.WriteByte(',')
		}
		b.WriteByte(']')
	case reflect.Map:
		n := 0
		it := r.MapRange()
		for it.Next() {
			_ = it.Value().Kind()
			n++
		}
		fmt.Fprintf(b, "map[%d]", n)
	case reflect.Interface, reflect.Pointer:
		if r.IsNil() {
			b.WriteString("nil")
		} else if r.Type().Implements(errorType) {
			b.WriteString("err")
		} else {
			b.WriteString(r.Type().String())
		}
	default:
		b.WriteString(r.Type().String())
	}
}

var adapters = []*adapter{&heapAdapter, &bstAdapter, &trieAdapter, &queueAdapter, &lqueueAdapter, &stackAdapter, &lstackAdapter, &cacheAdapter}

func adapterByName(n string) *adapter {
	for _, a := range adapters {
		if a.name == n {
			return a
		}
	}
	return nil
}

func (a *adapter) op(name string) *opDesc {
	for i := range a.ops {
		if a.ops[i].name == name {
			return &a.ops[i]
		}
	}
	return nil
}
