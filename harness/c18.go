package harness

import (
	"encoding/json"
	"errors"
	"fmt"
	"strings"
	"time"

	"github.com/esimov/gogu"
	"github.com/esimov/gogu/cache"

	"verif/simrt"
)

// FuncWork is a C18 workload: one caller driving After / Before / Once / Retry /
// RetryWithDelay through simulated time; the callback is the harness's and logs
// every execution with its simulated instant.
type FuncWork struct {
	P       SimSpec `json:"sim"`
	Kind    string  `json:"kind"` // after | before | once | retry | retrydelay
	N       int     `json:"n"`
	Calls   int     `json:"calls"`
	Pattern int     `json:"pattern"`              // bit i set: attempt i of the retried callback fails
	DelayNs int64   `json:"delay_ns"`             // RetryWithDelay
	ExpNs   int64   `json:"exp_ns"`               // default expiry of the cache behind Before/Once (<=0: never)
	GapsNs  []int64 `json:"gaps_ns"`              // simulated sleep before call i
	LatNs   int64   `json:"lat_ns"`               // simulated latency of the callback (callback_slow)
	CleanNs int64   `json:"cleanup_ns,omitempty"` // before/once: cleanup interval of the cache (its janitor goroutine is a scheduled task)
	Shared  bool    `json:"shared,omitempty"`     // before: the cache was first used by a Once wrapper (both memoise under one fixed key)
	Base    int     `json:"base"`                 // execution k of the callback returns Base+k: 0 makes the first result the zero value
}

func (w *FuncWork) Sim() SimSpec { return w.P }

func (w *FuncWork) Key() string {
	return fmt.Sprintf("c18/%s/n=%d/calls=%d/pat=%d/d=%d/exp=%d/gaps=%v/lat=%d/tf=%v", w.Kind, w.N, w.Calls, w.Pattern, w.DelayNs, w.ExpNs, w.GapsNs, w.LatNs, w.P.TimeFaults) + fmt.Sprintf("/base=%d/shared=%v/clean=%d", w.Base, w.Shared, w.CleanNs)
}

func (w *FuncWork) ShapeName() string {
	s := w.Kind
	if w.P.TimeFaults {
		s += "/timefaults"
	}
	return s
}

// fexec is one execution of the callback.
type fexec struct {
	Call  int   `json:"call"` // index of the wrapper call during which it ran
	Start int64 `json:"start"`
	End   int64 `json:"end"`
	Val   int   `json:"val"`
	Fail  bool  `json:"fail"`
}

// fcall is one call of the wrapper.
type fcall struct {
	TI    int64  `json:"ti"`
	TR    int64  `json:"tr"`
	Res   int    `json:"res"`
	Att   int    `json:"attempts"`
	Err   string `json:"err"`
	ElNs  int64  `json:"elapsed_ns"`
	Done  bool   `json:"done"`
	Panic string `json:"panic,omitempty"`
}

type funcHist struct {
	Execs []fexec
	Calls []fcall
}

func (w *FuncWork) Exec(x *Exec) {
	h := &funcHist{}
	cur := 0
	x.Spawn("caller", func() {
		// the callback: logs its execution, optionally takes simulated time, returns a value unique to the execution
		run := func(fail bool) int {
			e := fexec{Call: cur, Start: x.S.Now(), Fail: fail}
			if w.LatNs > 0 {
				simrt.Sleep(time.Duration(w.LatNs))
			}
			e.Val = w.Base + len(h.Execs)
			e.End = x.S.Now()
			h.Execs = append(h.Execs, e)
			return e.Val
		}
		call := func(i int, f func(c *fcall)) {
			if i < len(w.GapsNs) && w.GapsNs[i] > 0 {
				simrt.Sleep(time.Duration(w.GapsNs[i]))
			}
			cur = i
			c := fcall{TI: x.S.Now()}
			func() {
				defer func() {
					if p := recover(); p != nil {
						c.Panic = fmt.Sprint(p)
					}
				}()
				f(&c)
			}()
			c.TR = x.S.Now()
			c.Done = true
			h.Calls = append(h.Calls, c)
		}
		switch w.Kind {
		case "after":
			n := w.N
			for i := 0; i < w.Calls; i++ {
				call(i, func(c *fcall) { gogu.After(&n, func() { run(false) }) })
			}
		case "before":
			n := w.N
			c := cache.New[string, int](time.Duration(w.ExpNs), time.Duration(w.CleanNs))
			if w.Shared {
				// another wrapper has memoised into this cache before (not part of the recorded history)
				gogu.Once[string, int, int](c, func() int { return 777 })
			}
			for i := 0; i < w.Calls; i++ {
				call(i, func(fc *fcall) { fc.Res = gogu.Before[string, int, int](&n, c, func() int { return run(false) }) })
			}
		case "once":
			c := cache.New[string, int](time.Duration(w.ExpNs), time.Duration(w.CleanNs))
			for i := 0; i < w.Calls; i++ {
				call(i, func(fc *fcall) { fc.Res = gogu.Once[string, int, int](c, func() int { return run(false) }) })
			}
		case "retry":
			call(0, func(fc *fcall) {
				k := 0
				att, err := gogu.RType[int]{Input: 7}.Retry(w.N, func(in int) error {
					fail := w.Pattern&(1<<uint(k)) != 0
					k++
					v := run(fail)
					if in != 7 {
						return errors.New("wrong-input")
					}
					if fail {
						return fmt.Errorf("fail-%d", v)
					}
					return nil
				})
				fc.Att = att
				if err != nil {
					fc.Err = err.Error()
				}
			})
		case "retrydelay":
			call(0, func(fc *fcall) {
				k := 0
				el, att, err := gogu.RType[int]{Input: 7}.RetryWithDelay(w.N, time.Duration(w.DelayNs), func(_ time.Duration, in int) error {
					fail := w.Pattern&(1<<uint(k)) != 0
					k++
					v := run(fail)
					if in != 7 {
						return errors.New("wrong-input")
					}
					if fail {
						return fmt.Errorf("fail-%d", v)
					}
					return nil
				})
				fc.Att, fc.ElNs = att, int64(el)
				if err != nil {
					fc.Err = err.Error()
				}
			})
		default:
			panic("harness: unknown C18 kind " + w.Kind)
		}
	})
	end := x.RunPhase()
	if end == simrt.EndOK {
		x.Out.funcHist = h
		for _, e := range h.Execs {
			x.Note(fmt.Sprint(e))
		}
		for _, c := range h.Calls {
			x.Note(fmt.Sprint(c))
		}
	} else if end == simrt.EndDeadlock {
		x.Violate("deadlock", "c18:"+w.Kind+":blocks-forever", "the call never returned: "+x.S.EndDetail)
	}
}

func (w *FuncWork) Post(out *RunOut) {
	h := out.funcHist
	if h == nil {
		return
	}
	for i, c := range h.Calls {
		out.History = append(out.History, fmt.Sprintf("call#%d [%s,%s] -> res=%d attempts=%d err=%q elapsed=%s panic=%q", i, time.Duration(c.TI), time.Duration(c.TR), c.Res, c.Att, c.Err, time.Duration(c.ElNs), c.Panic))
	}
	for i, e := range h.Execs {
		out.History = append(out.History, fmt.Sprintf("  callback execution #%d during call#%d [%s,%s] val=%d fail=%v", i, e.Call, time.Duration(e.Start), time.Duration(e.End), e.Val, e.Fail))
	}
	fail := func(clause, format string, a ...any) {
		out.Violations = append(out.Violations, Violation{Class: "oracle", Identity: "c18:" + w.Kind + ":" + clause,
			Detail: fmt.Sprintf(format, a...) + fmt.Sprintf("\nworkload: %s\nhistory:\n  %s", w.Key(), strings.Join(out.History, "\n  "))})
	}
	for i, c := range h.Calls {
		if c.Panic != "" {
			fail("panic", "call #%d panicked: %s", i, c.Panic)
			return
		}
	}
	execsIn := func(call int) []fexec {
		var l []fexec
		for _, e := range h.Execs {
			if e.Call == call {
				l = append(l, e)
			}
		}
		return l
	}
	timed := 0
	switch w.Kind {
	case "after":
		for i := range h.Calls {
			want := 0
			if i+1 > w.N {
				want = 1
			}
			if got := len(execsIn(i)); got != want {
				fail("count", "After(n=%d): call number %d ran the callback %d times, expected %d (suppressed for the first n calls, exactly once on every later call)", w.N, i+1, got, want)
				break
			}
		}
		out.Count("c18_clock_free_cases", 1)
	case "before":
		var lastRun *fexec
		var dlo, dhi int64
		never := w.ExpNs <= 0
		for i, c := range h.Calls {
			ex := execsIn(i)
			if i+1 <= w.N {
				if len(ex) != 1 {
					fail("count", "Before(n=%d): call number %d ran the callback %d times, expected once (it runs on each of the first n calls)", w.N, i+1, len(ex))
					break
				}
				// the n-th call serves its own result through the cache: under an injected stall inside the
				// call the entry can expire before it is read back, so this is asserted only when the
				// call's window is shorter than the entry's lifetime
				// (on a cache another wrapper has used, the fixed key collides: only the counts are asserted)
				if !(w.Shared && i+1 == w.N) && (i+1 < w.N || never || c.TR-c.TI < w.ExpNs) && c.Res != ex[0].Val {
					fail("result", "Before(n=%d): call number %d returned %d but the callback it ran returned %d", w.N, i+1, c.Res, ex[0].Val)
					break
				}
				e := ex[0]
				lastRun = &e
				dlo, dhi = c.TI+w.ExpNs, c.TR+w.ExpNs
			} else {
				if len(ex) != 0 {
					fail("ran-again", "Before(n=%d): call number %d ran the callback again (%d times); it must never run after the first n calls", w.N, i+1, len(ex))
					break
				}
				// "later calls return the result of the last run": asserted while the cache entry that
				// holds that result is live at every instant of the call
				if lastRun != nil && !w.Shared && (never || c.TR < dlo) {
					timed++
					if c.Res != lastRun.Val {
						fail("memo", "Before(n=%d): call number %d returned %d; the last run (call number %d) returned %d and its cache entry is still live (deadline %s)", w.N, i+1, c.Res, w.N, lastRun.Val, deadlineStr(never, dlo, dhi))
						break
					}
				}
			}
		}
		if never {
			out.Count("c18_clock_free_cases", 1)
		}
	case "once":
		have := false
		var val int
		var dlo, dhi int64
		never := w.ExpNs <= 0
		for i, c := range h.Calls {
			ex := execsIn(i)
			state := "none"
			if have {
				switch {
				case never || c.TR < dlo:
					state = "live"
				case c.TI > dhi:
					state = "expired"
				default:
					state = "unknown"
				}
			}
			switch state {
			case "live":
				timed++
				if len(ex) != 0 {
					fail("ran-again", "Once: call number %d ran the callback %d times although the entry cached at the first run is still live (deadline %s)", i+1, len(ex), deadlineStr(never, dlo, dhi))
					return
				}
				if c.Res != val {
					fail("result", "Once: call number %d returned %d, the first result is %d", i+1, c.Res, val)
					return
				}
			case "none", "expired":
				timed++
				if len(ex) != 1 {
					fail("count", "Once: call number %d (no live cached result) ran the callback %d times, expected a single run", i+1, len(ex))
					return
				}
				if c.Res != ex[0].Val {
					fail("result", "Once: call number %d returned %d but the single run that should have produced its result returned %d", i+1, c.Res, ex[0].Val)
					return
				}
				have, val = true, ex[0].Val
				dlo, dhi = c.TI+w.ExpNs, c.TR+w.ExpNs
			default: // the call straddles the deadline: either behaviour, but consistently
				if len(ex) > 1 {
					fail("count", "Once: call number %d ran the callback %d times", i+1, len(ex))
					return
				}
				if len(ex) == 1 {
					if c.Res != ex[0].Val {
						fail("result", "Once: call number %d returned %d but the run it made returned %d", i+1, c.Res, ex[0].Val)
						return
					}
					val = ex[0].Val
					dlo, dhi = c.TI+w.ExpNs, c.TR+w.ExpNs
				}
				// no run and a result that is not the cached one is not flagged here: the entry died during
				// the call, and the statement only speaks about calls made while it lives
			}
		}
	case "retry", "retrydelay":
		if len(h.Calls) != 1 {
			return
		}
		c := h.Calls[0]
		// expected number of callback invocations
		want := 0
		failed := 0
		succeeded := false
		for i := 0; i < w.N; i++ {
			want++
			if w.Pattern&(1<<uint(i)) == 0 {
				succeeded = true
				break
			}
			failed++
		}
		if got := len(h.Execs); got != want {
			fail("calls", "%s(n=%d, failure pattern %08b): the callback was invoked %d times, expected %d (until it succeeds or n calls have failed; not at all for n <= 0)", w.Kind, w.N, w.Pattern, got, want)
			return
		}
		if w.N >= 0 {
			if c.Att != failed {
				fail("attempts", "%s(n=%d, failure pattern %08b): reported %d failed attempts, expected %d", w.Kind, w.N, w.Pattern, c.Att, failed)
				return
			}
			wantErr := ""
			if !succeeded && failed > 0 {
				wantErr = fmt.Sprintf("fail-%d", h.Execs[len(h.Execs)-1].Val)
			}
			if c.Err != wantErr {
				fail("last-error", "%s(n=%d, failure pattern %08b): returned error %q, expected %q (the last error, nil after a success)", w.Kind, w.N, w.Pattern, c.Err, wantErr)
				return
			}
		} else if c.Att != 0 {
			fail("attempts", "%s(n=%d): reported %d attempts for a negative n", w.Kind, w.N, c.Att)
			return
		}
		if w.Kind == "retrydelay" {
			for i := 1; i < len(h.Execs); i++ {
				timed++
				gap := h.Execs[i].Start - h.Execs[i-1].End
				if gap < w.DelayNs {
					fail("spacing", "RetryWithDelay(n=%d, delay=%s): attempt %d started %s after attempt %d returned - less than the delay", w.N, time.Duration(w.DelayNs), i+1, time.Duration(gap), i)
					return
				}
			}
		} else {
			out.Count("c18_clock_free_cases", 1)
		}
	}
	out.Count("c18_timed_assertions", timed)
	out.Count("c18_callback_executions", len(h.Execs))
	nerr := 0
	for _, e := range h.Execs {
		if e.Fail {
			nerr++
		}
	}
	out.Count("fault_callback_error", nerr)
	if w.LatNs > 0 {
		out.Count("fault_callback_slow", len(h.Execs))
	}
}

func deadlineStr(never bool, dlo, dhi int64) string {
	if never {
		return "never"
	}
	if dlo == dhi {
		return time.Duration(dlo).String()
	}
	return fmt.Sprintf("[%s,%s]", time.Duration(dlo), time.Duration(dhi))
}

func genC18(r *simrt.Rand, tier string, idx uint64) Workload {
	w := &FuncWork{}
	kinds := []string{"after", "before", "once", "retry", "retrydelay"}
	w.Kind = kinds[int(idx%5)]
	sub := idx / 5
	w.N = int(sub%11) - 2
	switch w.Kind {
	case "after":
		w.Calls = int((sub / 11) % 13)
	case "before":
		w.Calls = int((sub / 11) % 13)
		w.ExpNs = []int64{-1, 0, 50 * ms}[r.Intn(3)]
		w.Shared = r.Intn(5) == 0
		if r.Intn(4) == 0 {
			w.CleanNs = []int64{20 * ms, 7 * ms}[r.Intn(2)]
		}
	case "once":
		w.Calls = 1 + int((sub/11)%8)
		w.ExpNs = []int64{-1, 0, 40 * ms, 40 * ms}[r.Intn(4)]
		if r.Intn(3) == 0 {
			// the cache behind Once has a cleanup goroutine: it must only ever remove the expired entry
			w.CleanNs = []int64{20 * ms, 7 * ms}[r.Intn(2)]
		}
	case "retry":
		w.Pattern = int((sub / 11) % 256)
	case "retrydelay":
		w.Pattern = int((sub / 11) % 256)
		w.DelayNs = []int64{5 * ms, 20 * ms, 1}[r.Intn(3)]
	}
	if r.Bool(0.3) {
		w.LatNs = []int64{1, 3 * ms, 25 * ms}[r.Intn(3)]
	}
	// what the callback returns: unique per execution; sometimes starting at the zero value of the
	// result type (a wrapper must not mistake a cached zero result for "nothing cached"), or
	// passing through it at the second or third execution
	w.Base = []int{1000, 1000, 1000, 0, 0, -1, -2, 1}[r.Intn(8)]
	// gaps between the calls: around the lifetime of the cache entry
	if w.Kind == "before" || w.Kind == "once" {
		for i := 0; i < w.Calls; i++ {
			var g int64
			switch r.Intn(8) {
			case 0:
				g = w.ExpNs - 1
			case 1:
				g = w.ExpNs
			case 2:
				g = w.ExpNs + 1
			case 3:
				g = 1 + r.Int63n(60*ms)
			case 4:
				g = w.ExpNs / 2
			default:
				g = 0
			}
			if g < 0 {
				g = 0
			}
			w.GapsNs = append(w.GapsNs, g)
		}
	}
	w.P = genSimSpec(r, 40)
	w.P.MaxSteps = 4000
	w.P.HorizonNs = int64(time.Hour)
	if (idx/55)%3 == 2 && (w.Kind == "retrydelay" || w.Kind == "once" || w.Kind == "before") {
		w.P.TimeFaults = true
		w.P.StallP = []float64{0.05, 0.15}[r.Intn(2)]
		w.P.JumpP = []float64{0, 0.02}[r.Intn(2)]
		w.P.DeltasNs = []int64{1, 5*ms - 1, 5 * ms, 20 * ms, 40*ms - 1, 40 * ms, 40*ms + 1, 50 * ms, 200 * ms}
		w.P.JumpsNs = []int64{int64(time.Second), int64(time.Hour)}
		w.P.FaultSteps = 1 << 30
	}
	return w
}

func decodeC18(raw json.RawMessage) (Workload, error) {
	w := &FuncWork{}
	if err := json.Unmarshal(raw, w); err != nil {
		return nil, err
	}
	return w, nil
}

func (w *FuncWork) clone() *FuncWork {
	c := *w
	c.GapsNs = append([]int64(nil), w.GapsNs...)
	return &c
}

// WithSim implements shrinker.
func (w *FuncWork) WithSim(p SimSpec) Workload {
	c := w.clone()
	q := c.P
	q.Policy, q.PCTDepth, q.PCTSteps, q.PreemptP = p.Policy, p.PCTDepth, p.PCTSteps, p.PreemptP
	c.P = q
	return c
}

// Shrinks implements shrinker.
func (w *FuncWork) Shrinks() []Workload {
	var out []Workload
	if w.P.TimeFaults {
		c := w.clone()
		c.P.TimeFaults, c.P.StallP, c.P.JumpP = false, 0, 0
		out = append(out, c)
	}
	if w.LatNs > 0 {
		c := w.clone()
		c.LatNs = 0
		out = append(out, c)
	}
	if w.Calls > 1 {
		c := w.clone()
		c.Calls--
		if len(c.GapsNs) > c.Calls {
			c.GapsNs = c.GapsNs[:c.Calls]
		}
		out = append(out, c)
	}
	if w.N > 0 {
		c := w.clone()
		c.N--
		out = append(out, c)
	}
	for b := 0; b < 8; b++ {
		if w.Pattern&(1<<uint(b)) != 0 {
			c := w.clone()
			c.Pattern &^= 1 << uint(b)
			out = append(out, c)
		}
	}
	for i, g := range w.GapsNs {
		if g > 0 {
			c := w.clone()
			c.GapsNs[i] = 0
			out = append(out, c)
		}
	}
	return out
}

func init() {
	register(&propDef{id: "C18", gen: genC18, decode: decodeC18, nontrivial: func(o *RunOut) bool {
		return o.Counters["c18_callback_executions"] > 0
	}})
}
