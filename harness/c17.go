package harness

import (
	"encoding/json"
	"fmt"
	"sort"
	"strings"
	"time"

	"github.com/esimov/gogu"
	"github.com/esimov/gogu/cache"

	"verif/simrt"
)

// MCall is one Memoize call of a client task.
type MCall struct {
	Key int   `json:"key"`
	At  int64 `json:"at"` // the task sleeps until this simulated instant (ns since start) before calling
}

// MBeh is the behaviour of one execution of the callback.
type MBeh struct {
	LatNs   int64 `json:"lat_ns,omitempty"`   // simulated latency (callback_slow); 0 = returns at once
	Err     bool  `json:"err,omitempty"`      // returns an error (callback_error)
	ErrItem bool  `json:"err_item,omitempty"` // with Err: the function returns a non-nil (partial) item together with the error
	Nest    int   `json:"nest,omitempty"`     // >0: before returning, the function itself calls Memoize for key Nest-1 (a nested computation; always a higher-numbered key, so there is no cycle)
}

// MemoWork is a C17 workload.
type MemoWork struct {
	P       SimSpec   `json:"sim"`
	ExpNs   int64     `json:"exp_ns"`
	CleanNs int64     `json:"cleanup_ns"`
	Keys    int       `json:"keys"`
	Tasks   [][]MCall `json:"tasks"`
	Beh     [][]MBeh  `json:"beh"`                // Beh[key][k]: behaviour of the k-th execution for that key (cycled)
	Held    int       `json:"held"`               // >=0: every execution for this key parks on a latch that opens only after all callers of the other keys have returned (key independence); -1: none
	KeyKind int       `json:"key_kind,omitempty"` // 0: string keys "key<i>"; 1: a named ~string key type whose String() masks the key (all keys print alike); 2: string keys that differ only in case / trailing blank; 3: long keys (70 bytes, or 4099) that differ only in their last byte; 4: includes the empty key
}

func (w *MemoWork) Sim() SimSpec { return w.P }

// life is the lifetime of a cached value: a default expiration of zero or less means "never".
func (w *MemoWork) life() int64 {
	if w.ExpNs <= 0 {
		return 1 << 60
	}
	return w.ExpNs
}

func (w *MemoWork) Key() string {
	return fmt.Sprintf("c17/%d/%d/%d/%v/%v/%d/tf=%v/kk=%d", w.ExpNs, w.CleanNs, w.Keys, w.Tasks, w.Beh, w.Held, w.P.TimeFaults, w.KeyKind)
}

func (w *MemoWork) ShapeName() string {
	s := fmt.Sprintf("callers=%d/keys=%d", len(w.Tasks), w.Keys)
	if w.Held >= 0 {
		s += "/held-key"
	}
	if w.P.TimeFaults {
		s += "/timefaults"
	}
	return s
}

const maxExecs = 512 // more than any generated workload can execute (thorough: 16 callers x 5 calls, each possibly with a nested call)

type mexec struct {
	Key      int
	Task     int
	StartSeq uint64
	EndSeq   uint64
	Start    int64
	End      int64
	Err      bool
	Done     bool
}

// memoShared is the state the callback shares between caller tasks. It is only
// touched from //go:norace functions (fixed-size arrays, no maps), so it adds no
// synchronisation between the tasks and is invisible to the race detector.
type memoShared struct {
	inflight [8]int
	execs    [maxExecs]mexec
	nexec    int
	perKey   [8]int
	overlapA int // first observed overlap: execution ids
	overlapB int
	overlap  bool
	lastOf   [8]int
}

//go:norace
func (m *memoShared) enter(key, task int, seq uint64, now int64) (id, kth int) {
	id = m.nexec
	if id >= maxExecs {
		panic("harness: too many callback executions")
	}
	m.nexec++
	m.execs[id] = mexec{Key: key, Task: task, StartSeq: seq, Start: now}
	kth = m.perKey[key]
	m.perKey[key]++
	if m.inflight[key] > 0 && !m.overlap {
		m.overlap, m.overlapA, m.overlapB = true, m.lastOf[key], id
	}
	m.inflight[key]++
	m.lastOf[key] = id
	return
}

//go:norace
func (m *memoShared) leave(id int, seq uint64, now int64, err bool) {
	e := &m.execs[id]
	e.EndSeq, e.End, e.Err, e.Done = seq, now, err, true
	m.inflight[e.Key]--
}

//go:norace
func (m *memoShared) snapshot() []mexec {
	return snapCopy(m.execs[:m.nexec])
}

type mcallRec struct {
	Task   int    `json:"task"`
	Idx    int    `json:"idx"`
	Key    int    `json:"key"`
	Inv    uint64 `json:"inv"`
	Ret    uint64 `json:"ret"`
	TI     int64  `json:"ti"`
	TR     int64  `json:"tr"`
	Val    int    `json:"val"` // value of the returned item; -1: nil item
	Err    string `json:"err"`
	Done   bool   `json:"done"`
	Panic  string `json:"panic,omitempty"`
	ErrExe int    `json:"-"`
}

type memoHist struct {
	Calls   []mcallRec
	Execs   []mexec
	Overlap bool
	OvA     int
	OvB     int
}

//go:norace
func snapshotMCalls(recs [][]mcallRec) []mcallRec { return snapFlatten(recs) }

func mkey(i int) string { return fmt.Sprintf("key%d", i) }

// maskedKey is a caller-defined key type of the kind Memoizer's type parameter (T ~string)
// invites: a credential-like key whose printed form hides its content, so all keys print alike.
// Distinct keys are still distinct keys.
type maskedKey string

func (maskedKey) String() string   { return "key-***" }
func (maskedKey) GoString() string { return "maskedKey(***)" }

var nearKeys = []string{"Key", "key", "key ", " key", "KEY", "kEy", "key\t", "keY"}

func (w *MemoWork) Exec(x *Exec) {
	// items the callback hands out: one per possible execution, value 1000+id, created up front
	factory := cache.New[string, int](cache.NoExpiration, 0)
	items := make([]*cache.Item[int], maxExecs)
	for i := range items {
		factory.Update("i", 1000+i, cache.NoExpiration)
		items[i], _ = factory.Get("i")
	}
	var memoize func(key int, fn func() (*cache.Item[int], error)) (*cache.Item[int], error)
	switch w.KeyKind {
	case 1:
		m := gogu.NewMemoizer[maskedKey, int](time.Duration(w.ExpNs), time.Duration(w.CleanNs))
		memoize = func(key int, fn func() (*cache.Item[int], error)) (*cache.Item[int], error) {
			return m.Memoize(maskedKey(mkey(key)), fn)
		}
	case 2:
		m := gogu.NewMemoizer[string, int](time.Duration(w.ExpNs), time.Duration(w.CleanNs))
		memoize = func(key int, fn func() (*cache.Item[int], error)) (*cache.Item[int], error) {
			return m.Memoize(nearKeys[key%len(nearKeys)], fn)
		}
	case 3, 4:
		m := gogu.NewMemoizer[string, int](time.Duration(w.ExpNs), time.Duration(w.CleanNs))
		n := 69
		if w.Keys == 3 {
			n = 4098
		}
		prefix := strings.Repeat("k", n)
		memoize = func(key int, fn func() (*cache.Item[int], error)) (*cache.Item[int], error) {
			if w.KeyKind == 4 && key == 0 {
				return m.Memoize("", fn)
			}
			return m.Memoize(prefix+fmt.Sprint(key), fn)
		}
	default:
		m := gogu.NewMemoizer[string, int](time.Duration(w.ExpNs), time.Duration(w.CleanNs))
		memoize = func(key int, fn func() (*cache.Item[int], error)) (*cache.Item[int], error) {
			return m.Memoize(mkey(key), fn)
		}
	}
	sh := &memoShared{}
	var latch simrt.Latch
	var others simrt.CountLatch
	recs := make([][]mcallRec, len(w.Tasks))
	for ti := range w.Tasks {
		ti := ti
		recs[ti] = make([]mcallRec, len(w.Tasks[ti]))
		onlyHeld := w.Held >= 0
		for j, c := range w.Tasks[ti] {
			recs[ti][j] = mcallRec{Task: ti, Idx: j, Key: c.Key, Val: -1}
			if c.Key != w.Held {
				onlyHeld = false
			}
		}
		if w.Held >= 0 && !onlyHeld {
			others.Add(1)
		}
		x.Spawn(fmt.Sprintf("caller%d", ti), func() {
			for j, c := range w.Tasks[ti] {
				r := &recs[ti][j]
				if d := c.At - x.S.Now(); d > 0 {
					simrt.Sleep(time.Duration(d))
				}
				key := c.Key
				var mkfn func(key, depth int) func() (*cache.Item[int], error)
				mkfn = func(key, depth int) func() (*cache.Item[int], error) {
					return func() (*cache.Item[int], error) {
						id, kth := sh.enter(key, ti, simrt.Stamp(), x.S.Now())
						b := MBeh{}
						if l := w.Beh[key]; len(l) > 0 {
							b = l[kth%len(l)]
						}
						if key == w.Held {
							latch.Wait()
						} else if b.LatNs > 0 {
							simrt.Sleep(time.Duration(b.LatNs))
						} else {
							simrt.Yield()
						}
						if j := b.Nest - 1; j > key && j < w.Keys && depth < 2 && w.Held < 0 {
							// a nested computation: its result is not part of the recorded history, its
							// executions are (single-flight and attribution apply to them like to any other)
							memoize(j, mkfn(j, depth+1))
						}
						sh.leave(id, simrt.Stamp(), x.S.Now(), b.Err)
						if b.Err {
							if b.ErrItem {
								// an error result is an error result, whatever comes with it: it must not be cached
								return items[id], fmt.Errorf("exec-%d", id)
							}
							return nil, fmt.Errorf("exec-%d", id)
						}
						return items[id], nil
					}
				}
				fn := mkfn(key, 0)
				r.Inv, r.TI = simrt.Stamp(), x.S.Now()
				func() {
					defer func() {
						if p := recover(); p != nil {
							r.Panic = fmt.Sprint(p)
						}
					}()
					it, err := memoize(key, fn)
					if it != nil {
						r.Val = it.Val()
					}
					if err != nil {
						r.Err = err.Error()
					}
				}()
				r.Ret, r.TR = simrt.Stamp(), x.S.Now()
				r.Done = true
			}
			if w.Held >= 0 && !onlyHeld {
				others.Add(-1)
			}
		})
	}
	if w.Held >= 0 {
		x.Spawn("releaser", func() {
			others.Wait()
			latch.Open()
		})
	}
	end := x.RunPhase()
	h := &memoHist{Calls: snapshotMCalls(recs), Execs: sh.snapshot(), Overlap: sh.overlap, OvA: sh.overlapA, OvB: sh.overlapB}
	for _, c := range h.Calls {
		x.Note(fmt.Sprint(c.Task, c.Idx, c.Inv, c.Ret, c.TI, c.TR, c.Val, c.Err))
	}
	for _, e := range h.Execs {
		x.Note(fmt.Sprint(e))
	}
	x.Out.memoHist = h
	if end == simrt.EndDeadlock {
		id := "c17:blocks-forever"
		if w.Held >= 0 && !latch.IsOpen() {
			id = "c17:key-independence"
		}
		x.Violate("deadlock", id, "Memoize callers blocked forever (with key "+fmt.Sprint(w.Held)+"'s computation held, callers of other keys must still complete): "+x.S.EndDetail)
	}
}

func (w *MemoWork) Post(out *RunOut) {
	h := out.memoHist
	if h == nil {
		return
	}
	for _, c := range h.Calls {
		out.History = append(out.History, fmt.Sprintf("caller%d#%d Memoize(key%d) seq[%d,%d] t[%s,%s] -> val=%d err=%q done=%v panic=%q", c.Task, c.Idx, c.Key, c.Inv, c.Ret, time.Duration(c.TI), time.Duration(c.TR), c.Val, c.Err, c.Done, c.Panic))
	}
	for i, e := range h.Execs {
		out.History = append(out.History, fmt.Sprintf("  execution %d of fn(key%d) by caller%d seq[%d,%d] t[%s,%s] err=%v done=%v", i, e.Key, e.Task, e.StartSeq, e.EndSeq, time.Duration(e.Start), time.Duration(e.End), e.Err, e.Done))
	}
	fail := func(clause, format string, a ...any) {
		out.Violations = append(out.Violations, Violation{Class: "oracle", Identity: "c17:" + clause,
			Detail: fmt.Sprintf(format, a...) + fmt.Sprintf("\nconfiguration: expiry %s cleanup %s held key %d time faults %v\nhistory:\n  %s",
				time.Duration(w.ExpNs), time.Duration(w.CleanNs), w.Held, w.P.TimeFaults, strings.Join(out.History, "\n  "))})
	}
	out.Count("c17_executions", len(h.Execs))
	nerr, nslow := 0, 0
	for _, e := range h.Execs {
		if e.Err {
			nerr++
		}
		if e.End > e.Start {
			nslow++
		}
	}
	out.Count("fault_callback_error", nerr)
	out.Count("fault_callback_slow", nslow)
	// (1) one computation per key at a time
	if h.Overlap {
		a, b := h.Execs[h.OvA], h.Execs[h.OvB]
		fail("two-executions-in-flight", "execution %d of fn(key%d) (caller%d) started while execution %d (caller%d) for the same key was still in progress", h.OvB, b.Key, b.Task, h.OvA, a.Task)
		return
	}
	for _, c := range h.Calls {
		if c.Panic != "" {
			if strings.Contains(c.Panic, "harness: ") {
				// the harness's own callback gave up (a bound of the harness, not of Memoize): trouble, never a violation
				out.Violations = append(out.Violations, Violation{Class: "harness", Identity: "c17:harness-callback-panicked", Detail: c.Panic})
				return
			}
			fail("panic", "Memoize panicked: %s", c.Panic)
			return
		}
	}
	if out.End != simrt.EndOK {
		return
	}
	// (2) every result comes from one specific execution of the same key that started before the call returned
	joined := 0
	for _, c := range h.Calls {
		if !c.Done {
			continue
		}
		if c.Err != "" {
			var id int
			if _, err := fmt.Sscanf(c.Err, "exec-%d", &id); err != nil || id < 0 || id >= len(h.Execs) {
				fail("foreign-error", "caller%d#%d received error %q, which no execution of the callback produced", c.Task, c.Idx, c.Err)
				return
			}
			e := h.Execs[id]
			if e.Key != c.Key {
				fail("key-contamination", "caller%d#%d asked for key%d and received the error of execution %d, which ran for key%d", c.Task, c.Idx, c.Key, id, e.Key)
				return
			}
			// errors are not cached: a caller may still join a flight whose function has just returned
			// (the flight ends when the call that ran it leaves Memoize), but once that call has
			// returned its error must not be served to anybody
			if e.StartSeq > c.Ret {
				fail("value-from-the-future", "caller%d#%d received the error of execution %d, which started only after the call had returned", c.Task, c.Idx, id)
				return
			}
			if l := leaderOf(h, e); l != nil && l.Ret < c.Inv {
				fail("error-cached", "caller%d#%d received the error of execution %d; the call that ran it (caller%d#%d) had already returned (seq %d) before this call began (seq %d): an error result was served later", c.Task, c.Idx, id, l.Task, l.Idx, l.Ret, c.Inv)
				return
			}
			// what comes with the error is the failing execution's own business (the function may
			// return a partial item together with its error); it must at least be that execution's
			if c.Val != -1 && c.Val != 1000+id {
				fail("error-with-foreign-value", "caller%d#%d received the error of execution %d together with value %d, which that execution did not produce", c.Task, c.Idx, id, c.Val)
				return
			}
			if e.Task != c.Task {
				joined++
			}
			continue
		}
		id := c.Val - 1000
		if c.Val == -1 || id < 0 || id >= len(h.Execs) {
			fail("foreign-value", "caller%d#%d received value %d and no error; no execution of the callback produced that value", c.Task, c.Idx, c.Val)
			return
		}
		e := h.Execs[id]
		if e.Key != c.Key {
			fail("key-contamination", "caller%d#%d asked for key%d and received the value of execution %d, which ran for key%d", c.Task, c.Idx, c.Key, id, e.Key)
			return
		}
		if e.Err {
			fail("error-result-served-as-value", "caller%d#%d received, with no error, the item of execution %d, which returned an error: an error result was cached or handed out as a success", c.Task, c.Idx, id)
			return
		}
		if !(e.StartSeq < c.Ret) {
			fail("value-from-the-future", "caller%d#%d received the value of execution %d, which started only after the call had returned", c.Task, c.Idx, id)
			return
		}
		if e.Task != c.Task && e.EndSeq > c.Inv {
			joined++
		}
	}
	out.Count("probe_caller_joined_an_execution_in_flight", joined)
	// (3) once a successful value is cached and until it expires, it is returned without invoking fn.
	// The cache content is reconstructed per key from the successful executions in completion order:
	// an execution's value is stored (insert-if-absent) between the end of fn and the return of the
	// call that ran it.
	leader := func(e mexec) *mcallRec { return leaderOf(h, e) }
	type entry struct {
		val      int
		dlo, dhi int64
		since    uint64 // seq after which the entry is surely in the cache
		ok       bool
	}
	served := 0
	for key := 0; key < w.Keys; key++ {
		var idx []int
		for i, e := range h.Execs {
			if e.Key == key && e.Done && !e.Err {
				idx = append(idx, i)
			}
		}
		sort.Slice(idx, func(a, b int) bool { return h.Execs[idx[a]].EndSeq < h.Execs[idx[b]].EndSeq })
		var entries []entry
		var cur entry
		ambiguous := false
		for _, i := range idx {
			e := h.Execs[i]
			l := leader(e)
			if l == nil {
				ambiguous = true
				break
			}
			switch {
			case !cur.ok || e.End > cur.dhi:
				cur = entry{val: 1000 + i, dlo: e.End + w.life(), dhi: l.TR + w.life(), since: l.Ret, ok: true}
				entries = append(entries, cur)
			case l.TR < cur.dlo:
				// a live entry exists during the whole store window: insert-if-absent keeps it
			default:
				ambiguous = true
			}
			if ambiguous {
				break
			}
		}
		if ambiguous {
			out.Count("c17_cache_reconstruction_ambiguous", 1)
		}
		for ci := range h.Calls {
			c := &h.Calls[ci]
			if c.Key != key || !c.Done {
				continue
			}
			// the entry that is surely cached and surely live for the whole call
			var hit *entry
			for ei := range entries {
				en := &entries[ei]
				if c.Inv > en.since && c.TR < en.dlo {
					hit = en
				}
			}
			if hit == nil {
				continue
			}
			if ambiguous {
				// later entries may be unknown; the found one is still valid only if no later entry could exist before this call
				continue
			}
			served++
			ran := false
			for _, e := range h.Execs {
				if e.Task == c.Task && e.StartSeq > c.Inv && e.StartSeq < c.Ret {
					ran = true
				}
			}
			if ran {
				fail("cached-value-recomputed", "caller%d#%d was invoked after value %d for key%d had been cached (seq %d) and before its deadline %s, yet it invoked the function again", c.Task, c.Idx, hit.val, key, hit.since, deadlineStr(false, hit.dlo, hit.dhi))
				return
			}
			if c.Err != "" || c.Val != hit.val {
				fail("cached-value-not-served", "caller%d#%d was invoked after value %d for key%d had been cached (seq %d) and before its deadline %s, but received val=%d err=%q", c.Task, c.Idx, hit.val, key, hit.since, deadlineStr(false, hit.dlo, hit.dhi), c.Val, c.Err)
				return
			}
		}
	}
	out.Count("c17_calls_served_from_cache_checked", served)
	out.Count("c17_calls", len(h.Calls))
}

func genC17(r *simrt.Rand, tier string, idx uint64) Workload {
	w := &MemoWork{Held: -1}
	w.ExpNs = []int64{50 * ms, int64(time.Second)}[r.Intn(2)]
	switch r.Intn(12) {
	case 0:
		// a memoizer used for call coalescing only: what is cached expires (practically) at once
		w.ExpNs = []int64{1, 1 * ms}[r.Intn(2)]
	case 1:
		// a memoizer whose values never expire (default expiration zero or NoExpiration)
		w.ExpNs = []int64{0, -1}[r.Intn(2)]
	}
	w.CleanNs = []int64{0, 20 * ms}[r.Intn(2)]
	w.Keys = 1 + r.Intn(3)
	nt := 1 + r.Intn(6)
	if tier == "thorough" && r.Bool(0.3) {
		nt = 7 + r.Intn(10)
	}
	lats := []int64{0, 0, 5 * ms, 30 * ms}
	for k := 0; k < w.Keys; k++ {
		n := 1 + r.Intn(3)
		var l []MBeh
		for i := 0; i < n; i++ {
			b := MBeh{LatNs: lats[r.Intn(len(lats))], Err: r.Bool(0.25)}
			b.ErrItem = b.Err && r.Bool(0.3)
			l = append(l, b)
		}
		w.Beh = append(w.Beh, l)
	}
	if w.Keys >= 2 && r.Bool(0.2) {
		w.Held = r.Intn(w.Keys)
	}
	// nested computations: in some runs the function of key k asks the same Memoizer for key k+1
	if w.Keys >= 2 && w.Held < 0 && r.Intn(6) == 0 {
		for k := 0; k < w.Keys-1; k++ {
			for i := range w.Beh[k] {
				if r.Bool(0.6) {
					w.Beh[k][i].Nest = k + 2
				}
			}
		}
	}
	// the key type and spelling are the caller's choice: mostly plain strings, sometimes a named
	// ~string type whose printed form masks the key, sometimes keys differing only in case/blanks
	w.KeyKind = []int{0, 0, 0, 0, 1, 1, 2, 3, 3, 4}[r.Intn(10)]
	// call instants: same instant, staggered inside/outside the callback latency, around the expiry instant
	span := w.ExpNs // the scale of the call instants
	if span <= 0 {
		span = 50 * ms
	}
	instants := []int64{0, 0, 0, 1, 2 * ms, 5 * ms, 5*ms + 1, 29 * ms, 30 * ms, 31 * ms, span - 1, span, span + 1, span + 5*ms, span + 30*ms, 2 * span}
	for t := 0; t < nt; t++ {
		n := 1 + r.Intn(3)
		if nt == 1 {
			n = 1 + r.Intn(5) // a lone caller: every sequential call pattern up to length 5
		}
		var calls []MCall
		at := int64(0)
		key := r.Intn(w.Keys)
		for j := 0; j < n; j++ {
			if w.Held < 0 && r.Bool(0.3) {
				key = r.Intn(w.Keys)
			}
			step := instants[r.Intn(len(instants))]
			if r.Bool(0.2) {
				step = r.Int63n(2 * span)
			}
			if j == 0 {
				at = step
			} else if r.Bool(0.5) {
				at += step
			}
			calls = append(calls, MCall{Key: key, At: at})
		}
		w.Tasks = append(w.Tasks, calls)
	}
	total := 0
	for _, t := range w.Tasks {
		total += len(t)
	}
	w.P = genSimSpec(r, 14*total+6)
	w.P.MaxSteps = 8000
	w.P.HorizonNs = int64(time.Hour)
	if idx%3 == 2 {
		w.P.TimeFaults = true
		w.P.StallP = []float64{0.02, 0.06}[r.Intn(2)]
		w.P.JumpP = []float64{0, 0.01}[r.Intn(2)]
		w.P.DeltasNs = []int64{1, 5 * ms, 30 * ms, span - 1, span, span + 1, 2 * span}
		w.P.JumpsNs = []int64{int64(time.Second), int64(time.Hour)}
		w.P.FaultSteps = 1 << 30
	}
	return w
}

func decodeC17(raw json.RawMessage) (Workload, error) {
	w := &MemoWork{}
	if err := json.Unmarshal(raw, w); err != nil {
		return nil, err
	}
	if w.Keys < 1 || w.Keys > 8 || len(w.Beh) < w.Keys {
		return nil, fmt.Errorf("malformed C17 workload")
	}
	return w, nil
}

func (w *MemoWork) clone() *MemoWork {
	c := *w
	c.Tasks = make([][]MCall, len(w.Tasks))
	for i, t := range w.Tasks {
		c.Tasks[i] = append([]MCall(nil), t...)
	}
	c.Beh = make([][]MBeh, len(w.Beh))
	for i, b := range w.Beh {
		c.Beh[i] = append([]MBeh(nil), b...)
	}
	return &c
}

// WithSim implements shrinker.
func (w *MemoWork) WithSim(p SimSpec) Workload {
	c := w.clone()
	q := c.P
	q.Policy, q.PCTDepth, q.PCTSteps, q.PreemptP = p.Policy, p.PCTDepth, p.PCTSteps, p.PreemptP
	c.P = q
	return c
}

// Shrinks implements shrinker.
func (w *MemoWork) Shrinks() []Workload {
	var out []Workload
	if w.P.TimeFaults {
		c := w.clone()
		c.P.TimeFaults, c.P.StallP, c.P.JumpP = false, 0, 0
		out = append(out, c)
	}
	if len(w.Tasks) > 1 {
		for i := range w.Tasks {
			c := w.clone()
			c.Tasks = append(c.Tasks[:i], c.Tasks[i+1:]...)
			out = append(out, c)
		}
	}
	for i := range w.Tasks {
		if len(w.Tasks[i]) > 1 {
			for j := range w.Tasks[i] {
				c := w.clone()
				c.Tasks[i] = append(c.Tasks[i][:j], c.Tasks[i][j+1:]...)
				out = append(out, c)
			}
		}
	}
	if w.CleanNs > 0 {
		c := w.clone()
		c.CleanNs = 0
		out = append(out, c)
	}
	for k := range w.Beh {
		for i, b := range w.Beh[k] {
			if b.LatNs > 0 {
				c := w.clone()
				c.Beh[k][i].LatNs = 0
				out = append(out, c)
			}
			if b.Err {
				c := w.clone()
				c.Beh[k][i].Err = false
				out = append(out, c)
			}
		}
		if len(w.Beh[k]) > 1 {
			c := w.clone()
			c.Beh[k] = c.Beh[k][:1]
			out = append(out, c)
		}
	}
	for i := range w.Tasks {
		for j, cl := range w.Tasks[i] {
			if cl.At > 0 {
				c := w.clone()
				c.Tasks[i][j].At = 0
				out = append(out, c)
			}
		}
	}
	return out
}

func init() {
	register(&propDef{id: "C17", gen: genC17, decode: decodeC17, nontrivial: func(o *RunOut) bool {
		return o.Counters["c17_executions"] > 0 && o.Stats.Switches > 0
	}})
}

// leaderOf returns the call during which (and in whose goroutine) the execution ran.
func leaderOf(h *memoHist, e mexec) *mcallRec {
	for i := range h.Calls {
		c := &h.Calls[i]
		if c.Task == e.Task && c.Done && c.Inv < e.StartSeq && c.Ret > e.EndSeq {
			return c
		}
	}
	return nil
}
