package harness

import (
	"fmt"
	"os"
	"testing"

	"verif/simrt"
)

// shrinker is implemented by workloads that can propose smaller variants of themselves.
type shrinker interface {
	// Shrinks returns one-step reductions (drop a task, drop a call, shrink an argument, drop a fault...).
	Shrinks() []Workload
	// WithSim returns a copy with another scheduling configuration.
	WithSim(p SimSpec) Workload
}

// minimise shrinks the workload and the schedule of a failing run while the same
// violation identity persists, then writes the minimised replay file. It is
// delta debugging by re-search: every candidate is re-executed under a handful
// of seeded schedules (biased towards few preemptions); bounded to a fixed
// number of executions.
func minimise(t *testing.T) {
	rf, work, err := loadReplay(os.Getenv("VERIF_REPLAY"))
	if err != nil {
		fmt.Fprintln(os.Stderr, "minimise:", err)
		os.Exit(2)
	}
	outPath := os.Getenv("VERIF_OUT")
	// A shrunk program has other calls in it, so identities that name the calls involved change
	// while shrinking: candidates are matched by violation class and subject (identity up to the
	// second ':'), races and panics by their full identity.
	target := rf.Violation.Identity
	match := func(vs []Violation) (Violation, bool) {
		for _, v := range vs {
			if v.Class != rf.Violation.Class {
				continue
			}
			if v.Identity == target {
				return v, true
			}
			if v.Class != "race" && v.Class != "panic" && idGroup(v.Identity) == idGroup(target) {
				return v, true
			}
		}
		return Violation{}, false
	}
	budget := int(envInt("VERIF_MIN_BUDGET", 300))
	execs := 0

	run := func(w Workload, seed uint64, dec []simrt.Decision) *RunOut {
		execs++
		rng := simrt.NewRand(seed)
		out := runOne(t, rf.Property, seed, w, rng, dec, false)
		if p, ok := w.(poster); ok {
			p.Post(out)
		}
		return out
	}
	// 0. the original must reproduce under strict replay
	best := run(work, rf.Seed, orEmpty(rf.Decisions))
	if _, ok := match(best.Violations); !ok {
		fmt.Printf("minimise: original does not reproduce (end=%s %s)\n", best.End, best.EndDetail)
		writeJSON(outPath, rf) // leave the original; the driver's replay step will flag it
		return
	}
	cur := work
	sh, canShrink := work.(shrinker)
	policies := []SimSpec{}
	if canShrink {
		base := work.Sim()
		for _, p := range []float64{0.02, 0.1, 0.3} {
			q := base
			q.Policy, q.PreemptP = simrt.PolSticky, p
			policies = append(policies, q)
		}
		q := base
		q.Policy = simrt.PolRandom
		policies = append(policies, q)
		q.Policy, q.PCTDepth = simrt.PolPCT, 2
		policies = append(policies, q)
	}
	try := func(w Workload, k int) *RunOut {
		ws := w.(shrinker)
		for j := 0; j < k && execs < budget; j++ {
			seed := simrt.SplitMix64(rf.Seed ^ uint64(execs)*0x9e3779b97f4a7c15)
			out := run(ws.WithSim(policies[j%len(policies)]), seed, nil)
			if _, ok := match(out.Violations); ok {
				return out
			}
		}
		return nil
	}
	if canShrink {
		// 1. shrink the workload
		for progress := true; progress && execs < budget; {
			progress = false
			for _, cand := range sh.Shrinks() {
				if execs >= budget {
					break
				}
				if out := try(cand, 10); out != nil {
					cur, best = out.Work, out
					sh = cur.(shrinker)
					progress = true
					break
				}
			}
		}
		// 2. fewest preemptions: re-search the final workload with low-preemption policies
		for j := 0; j < 40 && execs < budget; j++ {
			seed := simrt.SplitMix64(rf.Seed + 77 + uint64(j))
			q := cur.Sim()
			q.Policy, q.PreemptP = simrt.PolSticky, []float64{0.02, 0.05, 0.15}[j%3]
			out := run(cur.(shrinker).WithSim(q), seed, nil)
			if _, ok := match(out.Violations); ok && (out.Stats.Switches < best.Stats.Switches ||
				(out.Stats.Switches == best.Stats.Switches && len(out.Decisions) < len(best.Decisions))) {
				best = out
			}
		}
	}
	v, _ := match(best.Violations)
	m := toReplay(best, v)
	m.Index = rf.Index
	m.Note = fmt.Sprintf("minimised from run seed %d (index %d) in %d re-executions; original: %d decisions, minimised: %d decisions, %d preemptions",
		rf.Seed, rf.Index, execs, len(rf.Decisions), len(best.Decisions), best.Stats.Switches)
	if err := writeJSON(outPath, m); err != nil {
		fmt.Fprintln(os.Stderr, "minimise:", err)
		os.Exit(2)
	}
	fmt.Println("minimise:", m.Note)
}

func idGroup(id string) string {
	n := 0
	for i := 0; i < len(id); i++ {
		if id[i] == ':' {
			n++
			if n == 2 {
				return id[:i]
			}
		}
	}
	return id
}
