package harness

import (
	"encoding/json"
	"fmt"
	"time"

	"verif/simrt"
	atomic "verif/simrt/simatomic"
	sync "verif/simrt/simsync"
)

// Canary workloads validate the machinery itself on toy types whose verdict is
// known: the racy one must be reported, the correct ones never; a lock-order
// inversion and a recursive read lock with a writer in between must be found as
// deadlocks. They run under the pseudo-property id "CANARY" (./check setup and
// ./check selftest).

type toyCounter struct {
	mu sync.Mutex
	rw sync.RWMutex
	n  int
	a  sync.Mutex
	b  sync.Mutex
}

func userRacyInc(c *toyCounter) { c.n++ }

func userSafeInc(c *toyCounter) {
	c.mu.Lock()
	c.n++
	c.mu.Unlock()
}

func userRWRead(c *toyCounter) int {
	c.rw.RLock()
	defer c.rw.RUnlock()
	return c.n
}

func userRWWrite(c *toyCounter) {
	c.rw.Lock()
	c.n++
	c.rw.Unlock()
}

func userLockAB(c *toyCounter) {
	c.a.Lock()
	c.b.Lock()
	c.n++
	c.b.Unlock()
	c.a.Unlock()
}

func userLockBA(c *toyCounter) {
	c.b.Lock()
	c.a.Lock()
	c.n++
	c.a.Unlock()
	c.b.Unlock()
}

func userRecursiveRLock(c *toyCounter) int {
	c.rw.RLock()
	defer c.rw.RUnlock()
	return userRWRead(c) // deadlocks only when a writer announces itself in between
}

// toys for the atomic and pool seams

type toyPub struct {
	data int
	flag atomic.Int32
	n    atomic.Int64
	pool sync.Pool
}

type toyBuf struct{ v int }

func userAtomicAdd(p *toyPub) { p.n.Add(1) }

func userPublish(p *toyPub) {
	p.data = 42
	p.flag.Store(1)
}

func userReadIfPublished(p *toyPub) int {
	if p.flag.Load() == 1 {
		return p.data
	}
	return -1
}

func userRacyFlagIgnored(p *toyPub) int { return p.data } // reads without looking at the flag

func userPoolRoundTrip(p *toyPub) {
	b, _ := p.pool.Get().(*toyBuf)
	if b == nil {
		b = &toyBuf{}
	}
	b.v++
	p.pool.Put(b)
}

func userRacyPoolUseAfterPut(p *toyPub) {
	b, _ := p.pool.Get().(*toyBuf)
	if b == nil {
		b = &toyBuf{}
	}
	p.pool.Put(b)
	b.v++ // still using it after handing it back
}

// toys for the channel, select and timer seams (written the way cmd/simgen instruments such code)

type toyChan struct {
	tok  chan struct{} // capacity 1: a lock
	data chan int
	done chan struct{}
	n    int
	hits atomic.Int64
	mu   sync.Mutex
	tm   *time.Timer
}

func userChanTokenInc(c *toyChan) {
	simrt.PreChan()
	c.tok <- struct{}{}
	simrt.PostChan()
	c.n++
	simrt.PreChan()
	<-c.tok
	simrt.PostChan()
}

// correct: the value travels through the select, the plain field is written before the send and read after the receive
func userSelectSend(c *toyChan) {
	c.n = 7
	simrt.PreChan()
	s0 := simrt.SendTo(c.data).Val(1)
	s1 := simrt.RecvFrom(c.done)
	switch simrt.Select(false, s0, s1) {
	case 0:
		simrt.PostChan()
	case 1:
		simrt.PostChan()
	}
}

func userSelectRecv(c *toyChan) int {
	simrt.PreChan()
	r0 := simrt.RecvFrom(c.data)
	r1 := simrt.RecvFrom(c.done)
	switch simrt.Select(false, r0, r1) {
	case 0:
		v, ok := r0.Got2()
		simrt.PostChan()
		if ok && v == 1 {
			return c.n
		}
	case 1:
		simrt.PostChan()
	}
	return -1
}

// racy: polls a channel nobody writes to (default clause taken) and then touches the field with no synchronisation
func userRacySelectDefault(c *toyChan) {
	simrt.PreChan()
	r0 := simrt.RecvFrom(c.done)
	switch simrt.Select(true, r0) {
	case 0:
		simrt.PostChan()
	default:
		simrt.PostChan()
		c.n++
	}
}

// correct: a timer that re-arms itself from its own callback (every firing is a task of its own)
func userTimerRearm(c *toyChan) {
	c.mu.Lock()
	c.tm = simrt.AfterFunc(time.Millisecond, func() {
		c.mu.Lock()
		defer c.mu.Unlock()
		if c.hits.Add(1) < 4 {
			simrt.TimerReset(c.tm, 0)
		}
	})
	c.mu.Unlock()
	simrt.Sleep(10 * time.Millisecond)
	c.mu.Lock()
	simrt.TimerStop(c.tm)
	c.mu.Unlock()
}

// CanaryWork is one canary program.
type CanaryWork struct {
	P    SimSpec `json:"sim"`
	Kind string  `json:"kind"` // racy | safe | rw | lockorder | recursive-rlock
}

func (w *CanaryWork) Sim() SimSpec      { return w.P }
func (w *CanaryWork) Key() string       { return "canary/" + w.Kind }
func (w *CanaryWork) ShapeName() string { return w.Kind }

func (w *CanaryWork) Exec(x *Exec) {
	c := &toyCounter{}
	var fns []func()
	switch w.Kind {
	case "racy":
		fns = []func(){func() { userRacyInc(c) }, func() { userRacyInc(c) }}
	case "safe":
		fns = []func(){func() { userSafeInc(c) }, func() { userSafeInc(c) }, func() { userSafeInc(c) }}
	case "rw":
		fns = []func(){func() { userRWRead(c) }, func() { userRWWrite(c) }, func() { userRWRead(c) }}
	case "lockorder":
		fns = []func(){func() { userLockAB(c) }, func() { userLockBA(c) }}
	case "recursive-rlock":
		fns = []func(){func() { userRecursiveRLock(c) }, func() { userRWWrite(c) }}
	}
	p := &toyPub{}
	switch w.Kind {
	case "atomic-add":
		fns = []func(){func() { userAtomicAdd(p) }, func() { userAtomicAdd(p) }, func() { userAtomicAdd(p) }}
	case "atomic-publish":
		fns = []func(){func() { userPublish(p) }, func() { userReadIfPublished(p) }}
	case "atomic-flag-ignored":
		fns = []func(){func() { userPublish(p) }, func() { userRacyFlagIgnored(p) }}
	case "pool":
		fns = []func(){func() { userPoolRoundTrip(p) }, func() { userPoolRoundTrip(p) }, func() { userPoolRoundTrip(p) }}
	case "pool-use-after-put":
		fns = []func(){func() { userRacyPoolUseAfterPut(p) }, func() { userRacyPoolUseAfterPut(p) }}
	}
	ch := &toyChan{tok: make(chan struct{}, 1), data: make(chan int), done: make(chan struct{})}
	switch w.Kind {
	case "chan-token":
		fns = []func(){func() { userChanTokenInc(ch) }, func() { userChanTokenInc(ch) }, func() { userChanTokenInc(ch) }}
	case "select-handoff":
		fns = []func(){func() { userSelectSend(ch) }, func() { userSelectRecv(ch) }}
	case "select-default-racy":
		fns = []func(){func() { userRacySelectDefault(ch) }, func() { userRacySelectDefault(ch) }}
	case "timer-rearm":
		fns = []func(){func() { userTimerRearm(ch) }}
	}
	for i, f := range fns {
		x.Spawn(fmt.Sprintf("t%d", i), f)
	}
	if end := x.RunPhase(); end == simrt.EndDeadlock {
		x.Violate("deadlock", "canary:deadlock:"+w.Kind, x.S.EndDetail)
	}
	if w.Kind == "timer-rearm" {
		if n := ch.hits.Load(); n != 4 {
			x.Violate("oracle", "canary:timer-rearm:firings", fmt.Sprintf("a timer re-armed three times from its own callback fired %d times, want 4", n))
		}
	}
}

var canaryKinds = []string{"racy", "safe", "rw", "lockorder", "recursive-rlock",
	"atomic-add", "atomic-publish", "atomic-flag-ignored", "pool", "pool-use-after-put",
	"chan-token", "select-handoff", "select-default-racy", "timer-rearm"}

func genCanary(r *simrt.Rand, tier string, idx uint64) Workload {
	w := &CanaryWork{Kind: canaryKinds[int(idx%uint64(len(canaryKinds)))]}
	w.P = genSimSpec(r, 12)
	w.P.MaxSteps = 500
	w.P.HorizonNs = 1e9
	return w
}

func init() {
	register(&propDef{id: "CANARY", gen: genCanary,
		decode: func(raw json.RawMessage) (Workload, error) {
			w := &CanaryWork{}
			err := json.Unmarshal(raw, w)
			return w, err
		},
		nontrivial: func(o *RunOut) bool { return o.Stats.Switches > 0 }})
}
