package harness

import (
	"encoding/json"
	"fmt"

	"verif/simrt"
	atomic "verif/simrt/simatomic"
	sync "verif/simrt/simsync"
)

// Canary workloads validate the machinery itself on toy types whose verdict is
// known: the racy one must be reported, the correct ones never; a lock-order
// inversion and a recursive read lock with a writer in between must be found as
// deadlocks. They run under the pseudo-property id "CANARY" (./check setup and
// ./check selftest).

type toyCounter struct {
	mu sync.Mutex
	rw sync.RWMutex
	n  int
	a  sync.Mutex
	b  sync.Mutex
}

func userRacyInc(c *toyCounter) { c.n++ }

func userSafeInc(c *toyCounter) {
	c.mu.Lock()
	c.n++
	c.mu.Unlock()
}

func userRWRead(c *toyCounter) int {
	c.rw.RLock()
	defer c.rw.RUnlock()
	return c.n
}

func userRWWrite(c *toyCounter) {
	c.rw.Lock()
	c.n++
	c.rw.Unlock()
}

func userLockAB(c *toyCounter) {
	c.a.Lock()
	c.b.Lock()
	c.n++
	c.b.Unlock()
	c.a.Unlock()
}

func userLockBA(c *toyCounter) {
	c.b.Lock()
	c.a.Lock()
	c.n++
	c.a.Unlock()
	c.b.Unlock()
}

func userRecursiveRLock(c *toyCounter) int {
	c.rw.RLock()
	defer c.rw.RUnlock()
	return userRWRead(c) // deadlocks only when a writer announces itself in between
}

// toys for the atomic and pool seams

type toyPub struct {
	data int
	flag atomic.Int32
	n    atomic.Int64
	pool sync.Pool
}

type toyBuf struct{ v int }

func userAtomicAdd(p *toyPub) { p.n.Add(1) }

func userPublish(p *toyPub) {
	p.data = 42
	p.flag.Store(1)
}

func userReadIfPublished(p *toyPub) int {
	if p.flag.Load() == 1 {
		return p.data
	}
	return -1
}

func userRacyFlagIgnored(p *toyPub) int { return p.data } // reads without looking at the flag

func userPoolRoundTrip(p *toyPub) {
	b, _ := p.pool.Get().(*toyBuf)
	if b == nil {
		b = &toyBuf{}
	}
	b.v++
	p.pool.Put(b)
}

func userRacyPoolUseAfterPut(p *toyPub) {
	b, _ := p.pool.Get().(*toyBuf)
	if b == nil {
		b = &toyBuf{}
	}
	p.pool.Put(b)
	b.v++ // still using it after handing it back
}

// CanaryWork is one canary program.
type CanaryWork struct {
	P    SimSpec `json:"sim"`
	Kind string  `json:"kind"` // racy | safe | rw | lockorder | recursive-rlock
}

func (w *CanaryWork) Sim() SimSpec      { return w.P }
func (w *CanaryWork) Key() string       { return "canary/" + w.Kind }
func (w *CanaryWork) ShapeName() string { return w.Kind }

func (w *CanaryWork) Exec(x *Exec) {
	c := &toyCounter{}
	var fns []func()
	switch w.Kind {
	case "racy":
		fns = []func(){func() { userRacyInc(c) }, func() { userRacyInc(c) }}
	case "safe":
		fns = []func(){func() { userSafeInc(c) }, func() { userSafeInc(c) }, func() { userSafeInc(c) }}
	case "rw":
		fns = []func(){func() { userRWRead(c) }, func() { userRWWrite(c) }, func() { userRWRead(c) }}
	case "lockorder":
		fns = []func(){func() { userLockAB(c) }, func() { userLockBA(c) }}
	case "recursive-rlock":
		fns = []func(){func() { userRecursiveRLock(c) }, func() { userRWWrite(c) }}
	}
	p := &toyPub{}
	switch w.Kind {
	case "atomic-add":
		fns = []func(){func() { userAtomicAdd(p) }, func() { userAtomicAdd(p) }, func() { userAtomicAdd(p) }}
	case "atomic-publish":
		fns = []func(){func() { userPublish(p) }, func() { userReadIfPublished(p) }}
	case "atomic-flag-ignored":
		fns = []func(){func() { userPublish(p) }, func() { userRacyFlagIgnored(p) }}
	case "pool":
		fns = []func(){func() { userPoolRoundTrip(p) }, func() { userPoolRoundTrip(p) }, func() { userPoolRoundTrip(p) }}
	case "pool-use-after-put":
		fns = []func(){func() { userRacyPoolUseAfterPut(p) }, func() { userRacyPoolUseAfterPut(p) }}
	}
	for i, f := range fns {
		x.Spawn(fmt.Sprintf("t%d", i), f)
	}
	if end := x.RunPhase(); end == simrt.EndDeadlock {
		x.Violate("deadlock", "canary:deadlock:"+w.Kind, x.S.EndDetail)
	}
}

var canaryKinds = []string{"racy", "safe", "rw", "lockorder", "recursive-rlock",
	"atomic-add", "atomic-publish", "atomic-flag-ignored", "pool", "pool-use-after-put"}

func genCanary(r *simrt.Rand, tier string, idx uint64) Workload {
	w := &CanaryWork{Kind: canaryKinds[int(idx%uint64(len(canaryKinds)))]}
	w.P = genSimSpec(r, 12)
	w.P.MaxSteps = 500
	w.P.HorizonNs = 1e9
	return w
}

func init() {
	register(&propDef{id: "CANARY", gen: genCanary,
		decode: func(raw json.RawMessage) (Workload, error) {
			w := &CanaryWork{}
			err := json.Unmarshal(raw, w)
			return w, err
		},
		nontrivial: func(o *RunOut) bool { return o.Stats.Switches > 0 }})
}
