package harness

import (
	"encoding/json"
	"fmt"
	"regexp"
	"runtime"
	"sort"
	"strings"
	"testing"
	"testing/synctest"
	"time"

	"github.com/anishathalye/porcupine"
	"github.com/esimov/gogu/stack"

	"verif/simrt"
)

// ContWork is a program of concurrent method calls on one shared container
// (C01: race/panic/deadlock oracles; C02: linearizability oracle).
type ContWork struct {
	Mode  string     `json:"mode"` // "c01" | "c02"
	P     SimSpec    `json:"sim"`
	Type  string     `json:"type"`
	Cfg   int        `json:"cfg"`
	Init  []int      `json:"init"`
	Tasks [][]OpCall `json:"tasks"`
	Shape string     `json:"shape"`           // pair | triple | mix | ...
	Alpha int        `json:"alpha,omitempty"` // size of the key/value alphabet the run drew (accounting only)
	// Pre is a sequential history the instance has behind it before the concurrent calls start
	// (executed by one goroutine right after the initial content is stored, in the concurrent run and
	// in every sequential reference alike): typically "grow, then drain", which leaves spare capacity
	// and internal state that push-only initial contents never reach.
	Pre []OpCall `json:"pre,omitempty"`
}

// newInst builds the instance of a workload: initial content, then the sequential pre-history.
func (w *ContWork) newInst(cfg int) instance {
	inst := adapterByName(w.Type).build(w.Init, cfg)
	for _, o := range w.Pre {
		inst.call(o)
	}
	return inst
}

func (w *ContWork) Sim() SimSpec { return w.P }

func (w *ContWork) Key() string {
	var b strings.Builder
	fmt.Fprintf(&b, "%s/%s/%d/%v/%v", w.Mode, w.Type, w.Cfg, w.Init, w.Pre)
	for _, t := range w.Tasks {
		b.WriteString("|")
		for _, o := range t {
			b.WriteString(o.String())
		}
	}
	return b.String()
}

// callRec is the record of one call made by a client task.
type callRec struct {
	Task  int    `json:"task"`
	Idx   int    `json:"idx"`
	Op    OpCall `json:"op"`
	Inv   uint64 `json:"inv"`
	Ret   uint64 `json:"ret"`
	At    int64  `json:"at,omitempty"` // simulated instant (ns since the bubble's epoch) at invocation
	AtRet int64  `json:"at_ret,omitempty"`
	Res   string `json:"res"`
	Panic string `json:"panic,omitempty"`
	Stack string `json:"-"`
	Done  bool   `json:"done"`
}

// contHistory is what one run of a ContWork leaves behind for the post-bubble oracles.
type contHistory struct {
	Calls    []callRec
	Observed []string
	ObsPanic string
	ObsInv   uint64
	ObsRet   uint64
	ObsAt    int64
	ObsDone  bool
}

// bubbleEpoch is where testing/synctest's fake clock starts in every bubble.
var bubbleEpoch = time.Date(2000, 1, 1, 0, 0, 0, 0, time.UTC).UnixNano()

func simNow() int64 { return time.Now().UnixNano() - bubbleEpoch }

// timedCfg reports whether the workload's results depend on simulated time (cache with
// finite expirations): its sequential reference executions then run inside a bubble of their
// own, each call at the simulated instant at which the concurrent run made it.
func timedCfg(typ string, cfg int) bool { return typ == "cache" && cfg&cacheTimed != 0 }

// postT is the worker's *testing.T (sequential reference bubbles are sub-tests of it).
var postT *testing.T

// inBubble runs f inside a fresh synctest bubble with no simulator active (the sync shims
// pass straight through to the real primitives). It reports false if the bubble broke.
func inBubble(f func()) (ok bool) {
	ok = true
	postT.Run("s", func(t *testing.T) {
		defer func() {
			if p := recover(); p != nil {
				ok = false
			}
		}()
		synctest.Test(t, func(t *testing.T) { f() })
	})
	return ok
}

// serialCall makes one call of a sequential reference execution. at >= 0: first sleep (simulated
// time, inside a bubble) until that instant.
func serialCall(inst instance, o OpCall, at int64) (res, pan string) {
	if at >= 0 {
		if d := at - simNow(); d > 0 {
			time.Sleep(time.Duration(d))
		}
	}
	if o.Op == "Tick" {
		return "", ""
	}
	res, pan, _ = safeCall(inst, o)
	return
}

//go:norace
func snapshotRecs(recs [][]callRec) []callRec { return snapFlatten(recs) }

func safeCall(inst instance, o OpCall) (res, pan, stack string) {
	defer func() {
		if p := recover(); p != nil {
			pan = fmt.Sprint(p)
			buf := make([]byte, 2048)
			stack = string(buf[:runtime.Stack(buf, false)])
		}
	}()
	if o.Op == "Tick" {
		d := 10 * time.Millisecond
		if o.A > 0 {
			d = time.Duration(o.A) // a nap to a drawn instant (nanoseconds)
		}
		simrt.Sleep(d)
		return "", "", ""
	}
	if strings.HasPrefix(o.Op, "auto:") {
		return autoCall(inst, adapterOf(inst), o), "", ""
	}
	return inst.call(o), "", ""
}

func adapterOf(inst instance) *adapter {
	switch x := inst.(type) {
	case *heapInst:
		return &heapAdapter
	case *bstInst:
		return &bstAdapter
	case *trieInst:
		return &trieAdapter
	case *queueInst:
		if x.q != nil {
			return &queueAdapter
		}
		return &lqueueAdapter
	case *stackInst:
		if _, ok := x.s.(*stack.Stack[int]); ok {
			return &stackAdapter
		}
		return &lstackAdapter
	}
	return &cacheAdapter
}

func safeObserve(inst instance) (res []string, pan string) {
	defer func() {
		if p := recover(); p != nil {
			pan = fmt.Sprint(p)
		}
	}()
	return inst.observe(), ""
}

var numRe = regexp.MustCompile(`[0-9]+`)
var hexRe = regexp.MustCompile(`0x[0-9a-f]+`)

func normPanic(p string) string {
	p = hexRe.ReplaceAllString(p, "X")
	p = numRe.ReplaceAllString(p, "N")
	if len(p) > 100 {
		p = p[:100]
	}
	return p
}

func (w *ContWork) Exec(x *Exec) {
	inst := w.newInst(w.Cfg)
	recs := make([][]callRec, len(w.Tasks))
	for ti := range w.Tasks {
		ti := ti
		recs[ti] = make([]callRec, len(w.Tasks[ti]))
		for j, o := range w.Tasks[ti] {
			recs[ti][j] = callRec{Task: ti, Idx: j, Op: o}
		}
		x.Spawn(fmt.Sprintf("client%d", ti), func() {
			for j := range recs[ti] {
				r := &recs[ti][j]
				simrt.OpBegin()
				r.At = simNow()
				r.Inv = simrt.Stamp()
				r.Res, r.Panic, r.Stack = safeCall(inst, r.Op)
				r.Ret = simrt.Stamp()
				r.AtRet = simNow()
				simrt.OpEnd()
				r.Done = true
			}
		})
	}
	h := &contHistory{}
	end := x.RunPhase()
	h.Calls = snapshotRecs(recs)
	for _, c := range h.Calls {
		x.Note(fmt.Sprint(c.Task, c.Idx, c.Inv, c.Ret, c.At, c.AtRet, c.Res, c.Panic != ""))
	}
	if end == simrt.EndDeadlock {
		stuckSet := map[string]bool{}
		var panicked []string
		for _, c := range h.Calls {
			if !c.Done && c.Inv != 0 {
				stuckSet[c.Op.Op] = true
			}
			if c.Panic != "" {
				panicked = append(panicked, c.Op.Op)
			}
		}
		var stuck []string
		for k := range stuckSet {
			stuck = append(stuck, k)
		}
		sort.Strings(stuck)
		sort.Strings(panicked)
		id := fmt.Sprintf("deadlock:%s:%s", w.Type, strings.Join(stuck, "+"))
		if len(panicked) > 0 {
			// the usual cause: a call panicked while holding the lock
			id = fmt.Sprintf("deadlock:%s:after-panic-in:%s", w.Type, panicked[0])
		}
		x.Violate("deadlock", id, "client calls blocked forever: "+x.S.EndDetail)
	}
	if end == simrt.EndOK {
		// phase 2: the instance must still be usable; the observer is an ordinary
		// client task so that a lock left held shows up as a deadlock, not as a hung harness
		var obs []string
		var obsPanic string
		var inv, ret uint64
		var obsAt int64
		done := false
		x.Spawn("observer", func() {
			obsAt = simNow()
			inv = simrt.Stamp()
			obs, obsPanic = safeObserve(inst)
			ret = simrt.Stamp()
			done = true
		})
		end2 := x.RunPhase()
		if end2 == simrt.EndOK {
			h.Observed, h.ObsPanic, h.ObsInv, h.ObsRet, h.ObsDone, h.ObsAt = obs, obsPanic, inv, ret, done, obsAt
			x.Note(strings.Join(obs, ";") + obsPanic)
		} else if end2 == simrt.EndDeadlock {
			x.Violate("unusable", "unusable:"+w.Type+":observer-blocked",
				"after all calls returned, a follow-up call on the instance blocks forever: "+x.S.EndDetail)
		}
	}
	x.Out.hist = h
}

// Post runs the oracles that need sequential reference executions; it is called
// outside the bubble with no simulator active.
func (w *ContWork) Post(out *RunOut) {
	h := out.hist
	if h == nil {
		return
	}
	for _, c := range h.Calls {
		out.History = append(out.History, fmt.Sprintf("t%d#%d %s [%d,%d] -> %q panic=%q done=%v", c.Task, c.Idx, c.Op, c.Inv, c.Ret, c.Res, c.Panic, c.Done))
	}
	if h.ObsDone {
		out.History = append(out.History, fmt.Sprintf("observer [%d,%d] -> %q panic=%q", h.ObsInv, h.ObsRet, h.Observed, h.ObsPanic))
	}
	// panic oracle (both modes: a C02 history with a panic is not checked for linearizability)
	panicked := false
	for _, c := range h.Calls {
		if c.Panic != "" {
			panicked = true
		}
	}
	if h.ObsPanic != "" {
		panicked = true
	}
	if panicked {
		serial, exhaustive := w.serialPanics()
		switch {
		case serial:
			// a panic that also happens serially is not "because of how the calls interleave" (C03-C09
			// territory); what follows from it (a lock left held by the panicking call) is not either
			out.Skipped = "sequential-defect: some serial order of the same calls panics too"
			keep := out.Violations[:0]
			for _, v := range out.Violations {
				if v.Class == "race" || v.Class == "harness" {
					keep = append(keep, v)
				}
			}
			out.Violations = keep
		case !exhaustive:
			out.Skipped = "panic not attributable: too many serial orders to enumerate"
		default:
			for _, c := range h.Calls {
				if c.Panic != "" {
					cls := "panic"
					if strings.HasPrefix(c.Panic, "fatal error: ") {
						continue // reported through the fatal class already
					}
					out.Violations = append(out.Violations, Violation{Class: cls,
						Identity: fmt.Sprintf("panic:%s.%s:%s", w.Type, c.Op.Op, normPanic(c.Panic)),
						Detail:   fmt.Sprintf("%s.%s panicked under this interleaving but in no serial order of the same calls: %s\n%s", w.Type, c.Op, c.Panic, c.Stack)})
				}
			}
			if h.ObsPanic != "" {
				out.Violations = append(out.Violations, Violation{Class: "unusable",
					Identity: fmt.Sprintf("unusable:%s:%s", w.Type, normPanic(h.ObsPanic)),
					Detail:   "after all calls returned, a follow-up call panicked (it does not after any serial order of the same calls): " + h.ObsPanic})
			}
		}
		return
	}
	if w.Mode == "c02" && out.End == simrt.EndOK && h.ObsDone {
		w.checkConservation(out, h)
		if w.Type == "cache" {
			w.checkCacheConservation(out, h)
		}
		if !(w.Type == "cache" && w.Cfg&cacheJanitor != 0) {
			w.checkLinearizable(out, h)
		}
	}
}

// checkConservation decides the clause "no element is lost, duplicated or double-counted" for the
// push/pop containers directly on the concurrent history, without any reference execution: the
// elements the instance held when the concurrent calls started (read off a fresh instance built
// the same way), plus every element put in, must equal, as multisets, the elements taken out plus
// those drained afterwards. Programs containing Clear (which removes an unrecorded set) are left
// to the linearizability oracle. Unlike that oracle, this one also speaks about a purely
// sequential loss - it is what the statement says "in particular".
func (w *ContWork) checkConservation(out *RunOut, h *contHistory) {
	var in, outOp string
	switch w.Type {
	case "heap", "stack":
		in, outOp = "Push", "Pop"
	case "queue":
		in, outOp = "Enqueue", "Dequeue"
	case "lqueue":
		// only on histories in which the linked queue can never become empty, whatever the order of the
		// calls (see below): fewer Dequeue calls than initial elements
		in, outOp = "Enqueue", "Dequeue"
	default:
		// Not the linked variants: there the clause is contradicted by their own sequential behaviour,
		// which this technique does not judge (C05/C06, not claimed). LStack.Pop hands out the element
		// BELOW the top (DList.Pop returns a copy of the node before the last one) and the
		// repository's Example_linkedList pins exactly that; a linked queue that has been emptied keeps
		// its by-value head node as a phantom zero element, so the next Enqueue lands behind it.
		return
	}
	for _, c := range h.Calls {
		if c.Op.Op == "Clear" || c.Panic != "" {
			return
		}
	}
	count := map[string]int{}
	// what the instance holds at the start
	start, p := safeObserve(w.newInst(serialCfg(w.Type, w.Cfg)))
	if p != "" {
		return
	}
	addDrain := func(obs []string, sign int) bool {
		for _, o := range obs {
			if strings.HasPrefix(o, "Drain=") {
				for _, v := range strings.Split(strings.TrimPrefix(o, "Drain="), ",") {
					v = strings.TrimSpace(strings.TrimSuffix(strings.TrimSpace(v), "ok"))
					if v != "" && v != "0" {
						count[v] += sign
					}
				}
				return true
			}
		}
		return false
	}
	if !addDrain(start, +1) || !addDrain(h.Observed, -1) {
		return
	}
	if w.Type == "lqueue" {
		initial := 0
		for _, o := range start {
			if strings.HasPrefix(o, "Size=") {
				fmt.Sscan(strings.TrimPrefix(o, "Size="), &initial)
			}
		}
		deq := 0
		for _, c := range h.Calls {
			if c.Op.Op == outOp {
				deq++
			}
		}
		if deq >= initial {
			return
		}
	}
	for _, c := range h.Calls {
		switch c.Op.Op {
		case in:
			count[fmt.Sprint(c.Op.A)]++
		case outOp:
			// "v" (stack, heap, linked queue: the zero value when empty) or "vok" / "0err" (slice queue)
			v := c.Res
			if strings.HasSuffix(v, "err") {
				continue
			}
			v = strings.TrimSpace(strings.TrimSuffix(v, "ok"))
			if v != "" && v != "0" {
				count[v]--
			}
		case "Delete": // heap: "true ok" removes one element equal to the argument
			if strings.HasPrefix(c.Res, "true") {
				count[fmt.Sprint(c.Op.A)]--
			}
		}
	}
	var lost, dup []string
	for v, n := range count {
		if n > 0 {
			lost = append(lost, fmt.Sprintf("%s x%d", v, n))
		} else if n < 0 {
			dup = append(dup, fmt.Sprintf("%s x%d", v, -n))
		}
	}
	if len(lost) == 0 && len(dup) == 0 {
		out.Count("conservation_checked", 1)
		return
	}
	sort.Strings(lost)
	sort.Strings(dup)
	out.Violations = append(out.Violations, Violation{Class: "oracle", Identity: "c02:conservation:" + w.Type,
		Detail: fmt.Sprintf("elements are not conserved: initial content %v plus the elements put in differ from the elements taken out plus the final content; lost %v, handed out more often than put in %v\n  %s",
			start, lost, dup, strings.Join(out.History, "\n  "))})
}

// checkCacheConservation is the clause "no element is lost" for the expiring cache, decided on the
// concurrent history itself (no reference execution, hence also with the cleanup goroutine running):
// if a store of key k was acknowledged, every other call that can change k (a store or Delete of k,
// Flush) had returned before that store was invoked, and the entry is surely still live when the
// observer looks (it never expires, or its deadline - at least the store's invocation instant plus
// its duration - lies after the observation), then the observer's Get(k) returns that value.
// DeleteExpired and the cleanup goroutine may only remove expired entries, so they do not count as
// calls that can change k.
func (w *ContWork) checkCacheConservation(out *RunOut, h *contHistory) {
	type cacheLike interface {
		render(b int) string
		life(b int, def time.Duration) (time.Duration, bool)
	}
	ref, ok := w.newInst(serialCfg(w.Type, w.Cfg) &^ cachePreAged).(cacheLike)
	if !ok {
		return
	}
	def := time.Duration(0)
	if w.Cfg&cacheTimed != 0 {
		def = cacheDefaultLife
	}
	type store struct {
		key      int
		val      string
		inv, ret uint64
		at       int64
		forever  bool
		deadline int64
		what     string
		self     int // index of the store's own entry in touches
	}
	type touch struct {
		key      int // -1: every key
		inv, ret uint64
	}
	var stores []store
	var touches []touch
	nk := len(cacheKeys)
	norm := func(k int) int { return ((k % nk) + nk) % nk }
	// the initial content: buildCache stores Init[i] with value 900+i and duration code i+2 at instant 0
	for i, v := range w.Init {
		d, finite := ref.life(i+2, def)
		touches = append(touches, touch{key: norm(v)})
		stores = append(stores, store{key: norm(v), val: ref.render(900 + i), forever: !finite, deadline: int64(d), what: fmt.Sprintf("initial content #%d", i), self: len(touches) - 1})
	}
	// the pre-history (calls made one after the other before the concurrent calls start) may have
	// changed any key it names; its own stores are not tracked
	for _, o := range w.Pre {
		switch o.Op {
		case "Set", "Update", "MapToCache", "SetDefault", "Delete":
			touches = append(touches, touch{key: norm(o.A)})
		case "Flush":
			touches = append(touches, touch{key: -1})
		default:
			if strings.HasPrefix(o.Op, "auto:") {
				return
			}
		}
	}
	for _, c := range h.Calls {
		if !c.Done || c.Panic != "" {
			return
		}
		switch c.Op.Op {
		case "Set", "Update", "MapToCache", "SetDefault":
			touches = append(touches, touch{key: norm(c.Op.A), inv: c.Inv, ret: c.Ret})
			if c.Res != "ok" {
				continue
			}
			code := c.Op.B
			d, finite := ref.life(code, def)
			if c.Op.Op == "SetDefault" {
				d, finite = def, def > 0
			}
			stores = append(stores, store{key: norm(c.Op.A), val: ref.render(c.Op.B), inv: c.Inv, ret: c.Ret, at: c.At, forever: !finite,
				deadline: c.At + int64(d), what: fmt.Sprintf("t%d#%d %s", c.Task, c.Idx, c.Op), self: len(touches) - 1})
		case "Delete":
			touches = append(touches, touch{key: norm(c.Op.A), inv: c.Inv, ret: c.Ret})
		case "Flush":
			touches = append(touches, touch{key: -1, inv: c.Inv, ret: c.Ret})
		default:
			if strings.HasPrefix(c.Op.Op, "auto:") {
				return // a discovered method: unknown effect
			}
		}
	}
	got := map[int]string{}
	for _, o := range h.Observed {
		for k := 0; k < nk; k++ {
			if pre := "Get" + ck(k) + "="; strings.HasPrefix(o, pre) {
				got[k] = strings.TrimPrefix(o, pre)
			}
		}
	}
	checked := 0
	for _, s := range stores {
		last := true
		for ti, t := range touches {
			if ti == s.self || (t.key != s.key && t.key != -1) {
				continue
			}
			if !(t.ret < s.inv) {
				last = false // may take effect after the store (two initial stores of one key: left alone)
			}
		}
		if !last {
			continue
		}
		if !s.forever && !(s.deadline > h.ObsAt) {
			continue
		}
		g, ok := got[s.key]
		if !ok {
			continue
		}
		checked++
		if want := s.val + ",ok,false"; g != want {
			out.Violations = append(out.Violations, Violation{Class: "oracle", Identity: "c02:conservation:cache",
				Detail: fmt.Sprintf("an acknowledged store was lost: %s stored %s=%s (%s), every other call that can change that key had returned before it was invoked, yet the observer's Get/IsExpired at %s reads %q, want %q\n  %s",
					s.what, ck(s.key), s.val, lifeStr(s.forever, s.deadline), time.Duration(h.ObsAt), g, want, strings.Join(out.History, "\n  "))})
			return
		}
	}
	out.Count("cache_conservation_checked", checked)
}

func lifeStr(forever bool, deadline int64) string {
	if forever {
		return "never expires"
	}
	return "live until at least " + time.Duration(deadline).String()
}

// interleavings enumerates all merges of the task sequences (per-task order preserved), up to limit.
func interleavings(lens []int, limit int) (orders [][]int, complete bool) {
	total := 0
	for _, l := range lens {
		total += l
	}
	pos := make([]int, len(lens))
	cur := make([]int, 0, total)
	complete = true
	var rec func()
	rec = func() {
		if !complete {
			return
		}
		if len(cur) == total {
			if len(orders) >= limit {
				complete = false
				return
			}
			orders = append(orders, append([]int(nil), cur...))
			return
		}
		for t := range lens {
			if pos[t] < lens[t] {
				pos[t]++
				cur = append(cur, t)
				rec()
				cur = cur[:len(cur)-1]
				pos[t]--
			}
		}
	}
	rec()
	return
}

// serialPanics runs every serial order of the program's calls (followed by the
// observer sequence) on fresh instances and reports whether any of them panics.
func (w *ContWork) serialPanics() (panics bool, exhaustive bool) {
	lens := make([]int, len(w.Tasks))
	for i, t := range w.Tasks {
		lens[i] = len(t)
	}
	limit := 5000
	timed := timedCfg(w.Type, w.Cfg)
	if timed {
		limit = 1000
	}
	orders, complete := interleavings(lens, limit)
	one := func(ord []int) (panicked bool) {
		inst := w.newInst(serialCfg(w.Type, w.Cfg))
		pos := make([]int, len(w.Tasks))
		for _, t := range ord {
			o := w.Tasks[t][pos[t]]
			pos[t]++
			if o.Op == "Tick" {
				if timed {
					time.Sleep(10 * time.Millisecond) // simulated: we are inside a bubble
				}
				continue
			}
			if _, p, _ := safeCall(inst, o); p != "" {
				return true
			}
		}
		_, p := safeObserve(inst)
		return p != ""
	}
	for _, ord := range orders {
		bad := false
		if timed {
			if !inBubble(func() { bad = one(ord) }) {
				return false, false
			}
		} else {
			bad = one(ord)
		}
		if bad {
			return true, complete
		}
	}
	return false, complete
}

func serialCfg(typ string, cfg int) int {
	if typ == "cache" {
		return cfg &^ cacheJanitor // no janitor goroutine in sequential reference executions
	}
	return cfg
}

// ---------------------------------------------------------------- C02 oracle

type linInput struct {
	flat int // index into the flat call list; -1 = observer
}

func (w *ContWork) checkLinearizable(out *RunOut, h *contHistory) {
	calls := h.Calls
	memo := map[string]string{}
	timed := timedCfg(w.Type, w.Cfg)
	if timed {
		// every call of a timed program must sit at one simulated instant (no time passes while a
		// task is runnable); if one does not, the sequential reference cannot be placed: inconclusive
		for _, c := range calls {
			if c.At != c.AtRet && c.Op.Op != "Tick" {
				out.Count("lin_timed_call_spans_time", 1)
				return
			}
		}
		out.Count("lin_timed_programs", 1)
	}
	// seqResult replays the calls of seq (flat indices, comma separated) plus `next` on a fresh
	// instance, sequentially, and returns the rendered result of `next`.
	seqResult := func(seq []int, next int) string {
		key := fmt.Sprint(seq, next)
		if r, ok := memo[key]; ok {
			return r
		}
		res := ""
		body := func() {
			inst := w.newInst(serialCfg(w.Type, w.Cfg))
			at := func(i int) int64 {
				if !timed {
					return -1
				}
				return calls[i].At
			}
			for _, i := range seq {
				if _, p := serialCall(inst, calls[i].Op, at(i)); p != "" {
					res = "PANIC"
				}
			}
			if res == "" {
				if next >= 0 {
					r, p := serialCall(inst, calls[next].Op, at(next))
					if p != "" {
						res = "PANIC:" + p
					} else {
						res = "R:" + r
					}
				} else {
					if timed {
						serialCall(inst, OpCall{Op: "Tick"}, h.ObsAt)
					}
					o, p := safeObserve(inst)
					if p != "" {
						res = "PANIC:" + p
					} else {
						res = "R:" + strings.Join(o, ";")
					}
				}
			}
		}
		if timed {
			if !inBubble(body) {
				res = "BUBBLE-BROKE"
			}
		} else {
			body()
		}
		memo[key] = res
		return res
	}
	decode := func(state string) []int {
		if state == "" {
			return nil
		}
		parts := strings.Split(state, ",")
		seq := make([]int, len(parts))
		for i, p := range parts {
			fmt.Sscan(p, &seq[i])
		}
		return seq
	}
	model := porcupine.Model{
		Init: func() interface{} { return "" },
		Step: func(state, input, output interface{}) (bool, interface{}) {
			seq := decode(state.(string))
			in := input.(linInput)
			want := seqResult(seq, in.flat)
			if want != "R:"+output.(string) {
				return false, state
			}
			ns := state.(string)
			if ns != "" {
				ns += ","
			}
			ns += fmt.Sprint(in.flat)
			return true, ns
		},
		Equal: func(a, b interface{}) bool { return a.(string) == b.(string) },
		DescribeOperation: func(input, output interface{}) string {
			in := input.(linInput)
			if in.flat < 0 {
				return "observe -> " + output.(string)
			}
			return fmt.Sprintf("%s -> %s", calls[in.flat].Op, output.(string))
		},
	}
	var ops []porcupine.Operation
	for i, c := range calls {
		ops = append(ops, porcupine.Operation{ClientId: c.Task, Input: linInput{i}, Call: int64(c.Inv), Output: c.Res, Return: int64(c.Ret)})
	}
	ops = append(ops, porcupine.Operation{ClientId: len(w.Tasks), Input: linInput{-1}, Call: int64(h.ObsInv), Output: strings.Join(h.Observed, ";"), Return: int64(h.ObsRet)})
	res := porcupine.CheckOperationsTimeout(model, ops, 10*time.Second)
	switch res {
	case porcupine.Ok:
		out.Count("lin_ok", 1)
	case porcupine.Unknown:
		out.Count("lin_unknown_timeout", 1)
	case porcupine.Illegal:
		out.Count("lin_illegal", 1)
		// identity: type + the multiset of operations involved (names only)
		var names []string
		for _, c := range calls {
			names = append(names, c.Op.Op)
		}
		sort.Strings(names)
		out.Violations = append(out.Violations, Violation{Class: "nonlinearizable",
			Identity: fmt.Sprintf("nonlinearizable:%s:%s", w.Type, strings.Join(names, "+")),
			Detail:   "no sequential order of these calls (respecting which finished before others began) on a fresh instance of the same code returns these results and final contents:\n  " + strings.Join(out.History, "\n  ")})
	}
}

// ---------------------------------------------------------------- generation

type pairSpec struct {
	ad   *adapter
	a, b int
}

var allPairs []pairSpec

func init() {
	for _, ad := range adapters {
		discoverAutoOps(ad)
		for i := range ad.ops {
			for j := i; j < len(ad.ops); j++ {
				allPairs = append(allPairs, pairSpec{ad, i, j})
			}
		}
	}
}

func genCall(r *simrt.Rand, ad *adapter, alpha int, d *opDesc, task, idx int) OpCall {
	o := OpCall{Op: d.name}
	if d.nargs >= 1 {
		n := alpha
		if d.aRange > 0 {
			n = d.aRange
		}
		o.A = r.Intn(n)
		if ad.name == "heap" || ad.name == "queue" || ad.name == "lqueue" || ad.name == "stack" || ad.name == "lstack" || ad.name == "bstree" {
			if d.aRange == 0 {
				o.A++ // values/keys 1..alpha
			}
		}
	}
	if d.nargs >= 2 {
		if d.bRange > 0 {
			o.B = r.Intn(d.bRange)
		} else {
			o.B = 10*(task+1) + idx + 1 // unique per call: a read is attributable to one write
		}
	}
	return o
}

// drawAlpha draws the size of the key/value alphabet of one run: mostly the small default
// (collisions on purpose), sometimes 5 or 8 so that deeper trees, longer lists and larger
// heaps - and the branches only they reach - are exercised too.
func drawAlpha(r *simrt.Rand, ad *adapter) int {
	switch r.Intn(10) {
	case 0, 1:
		return 5
	case 2:
		return maxAlpha
	}
	return ad.alpha
}

func genInit(r *simrt.Rand, ad *adapter, alpha int) []int {
	sizes := []int{0, 1, 3, 7, 2}
	if alpha > ad.alpha {
		sizes = []int{0, 1, 3, 7, 2, 5, 12, 15}
	}
	n := sizes[r.Intn(len(sizes))]
	init := make([]int, n)
	for i := range init {
		init[i] = 1 + r.Intn(alpha)
		if ad.name == "trie" || ad.name == "cache" {
			init[i]--
		}
	}
	return init
}

func genC01(r *simrt.Rand, tier string, idx uint64) Workload {
	w := &ContWork{Mode: "c01"}
	shapeDraw := r.Intn(100)
	pairCut, tripleCut := 70, 85
	if tier == "thorough" {
		pairCut, tripleCut = 40, 70
	}
	ps := allPairs[int(idx%uint64(len(allPairs)))]
	ad := ps.ad
	w.Type = ad.name
	w.Cfg = r.Intn(ad.ncfg)
	alpha := drawAlpha(r, ad)
	w.Alpha = alpha
	w.Init = genInit(r, ad, alpha)
	if ad.name == "bstree" && r.Intn(3) == 0 {
		w.Init = bushyKeys(r)
	}
	if r.Intn(7) == 0 {
		w.Pre = genPre(r, ad, alpha)
	}
	switch {
	case shapeDraw < pairCut:
		w.Shape = "pair"
		a, b := ps.a, ps.b
		if r.Bool(0.5) {
			a, b = b, a
		}
		w.Tasks = [][]OpCall{{genCall(r, ad, alpha, &ad.ops[a], 0, 0)}, {genCall(r, ad, alpha, &ad.ops[b], 1, 0)}}
	case shapeDraw < tripleCut:
		w.Shape = "triple"
		ops := []int{ps.a, ps.b, r.Intn(len(ad.ops))}
		p := r.Perm(3)
		for t := 0; t < 3; t++ {
			w.Tasks = append(w.Tasks, []OpCall{genCall(r, ad, alpha, &ad.ops[ops[p[t]]], t, 0)})
		}
	default:
		w.Shape = "mix"
		nt := 2 + r.Intn(3)
		if tier == "thorough" && r.Intn(4) == 0 {
			nt = 5 + r.Intn(4) // long random mixes: up to 8 caller tasks
		}
		for t := 0; t < nt; t++ {
			n := 1 + r.Intn(6)
			if tier != "thorough" && n > 4 {
				n = 4
			}
			var calls []OpCall
			for j := 0; j < n; j++ {
				var d *opDesc
				switch r.Intn(4) {
				case 0:
					d = &ad.ops[ps.a]
				case 1:
					d = &ad.ops[ps.b]
				default:
					d = &ad.ops[r.Intn(len(ad.ops))]
				}
				calls = append(calls, genCall(r, ad, alpha, d, t, j))
			}
			w.Tasks = append(w.Tasks, calls)
		}
	}
	if ad.name == "cache" && w.Cfg&(cacheJanitor|cacheTimed) != 0 {
		// the janitor only becomes a concurrent party when its ticker fires, and stored entries only
		// expire when simulated time passes: let tasks sleep 10 ms at drawn places of their programs
		insertTicks(r, w, 1+r.Intn(2))
	}
	total := 0
	for _, t := range w.Tasks {
		total += len(t)
	}
	w.P = genSimSpec(r, 6*total+4)
	w.P.MaxSteps = 3000
	w.P.HorizonNs = int64(time.Second)
	return w
}

var mutatorOps = map[string]bool{"Push": true, "Pop": true, "Clear": true, "Delete": true, "Upsert": true, "Put": true,
	"Enqueue": true, "Dequeue": true, "Set": true, "Update": true}

// bushyKeys returns 3-7 distinct keys in a drawn insertion order: a search tree with nodes that
// have two children (random contents over a 2-3 value alphabet are mostly duplicates and chains).
func bushyKeys(r *simrt.Rand) []int {
	k := []int{3, 3, 4, 5, 7}[r.Intn(5)]
	p := r.Perm(k)
	for i := range p {
		p[i]++
	}
	return p
}

// genPre draws a "grow, then drain" pre-history for the types that can shrink.
func genPre(r *simrt.Rand, ad *adapter, alpha int) []OpCall {
	var grow, drain string
	switch ad.name {
	case "stack", "lstack", "heap":
		grow, drain = "Push", "Pop"
	case "queue", "lqueue":
		grow, drain = "Enqueue", "Dequeue"
	case "bstree":
		grow, drain = "Upsert", "Delete"
	case "cache":
		grow, drain = "Update", "Delete"
	default:
		return nil
	}
	n := 16 + r.Intn(9)
	if r.Intn(4) == 0 {
		n = 16 + r.Intn(25)
	}
	keep := r.Intn(7)
	var pre []OpCall
	order := r.Perm(n) // bstree: keys in a drawn order, so that the tree is bushy (nodes with two children), not a chain
	for i := 0; i < n; i++ {
		o := OpCall{Op: grow, A: 1 + r.Intn(alpha), B: 800 + i}
		if ad.name == "bstree" {
			o.A = 1 + order[i] // distinct keys: a tree of n nodes
		}
		if ad.name == "cache" {
			o.A = i // key k<i mod 8>; B%3 == 0 below keeps these entries free of expiry
			o.B = 900 + 3*i
		}
		pre = append(pre, o)
	}
	switch ad.name {
	case "bstree":
		// delete in a drawn order, keeping only keys the observers look at
		for _, i := range r.Perm(n) {
			if k := 1 + i; k > maxAlpha || r.Intn(n) >= keep {
				pre = append(pre, OpCall{Op: drain, A: k})
			}
		}
	case "cache":
		for i := 0; i < len(cacheKeys); i++ {
			if r.Intn(len(cacheKeys)) >= keep {
				pre = append(pre, OpCall{Op: drain, A: i})
			}
		}
	default:
		for i := 0; i < n-keep; i++ {
			pre = append(pre, OpCall{Op: drain})
		}
	}
	return pre
}

// insertTicks puts n "Tick" pseudo-calls (10 ms of simulated time) at drawn places.
func insertTicks(r *simrt.Rand, w *ContWork, n int) {
	for k := 0; k < n; k++ {
		t := r.Intn(len(w.Tasks))
		pos := r.Intn(len(w.Tasks[t]) + 1)
		calls := append([]OpCall(nil), w.Tasks[t][:pos]...)
		tick := OpCall{Op: "Tick"}
		if w.Type == "cache" && w.Cfg&cacheJanitor != 0 && r.Intn(2) == 0 {
			// with the cleanup goroutine running: also naps that end exactly at (and 1 ns around) the
			// instants at which entries stored "now" expire, so that a call and a sweep meet
			naps := []time.Duration{cacheShortLife, cacheShortLife + 1, cacheShortLife - 1, cacheDefaultLife, cacheCleanup - cachePreAge, 3 * time.Millisecond}
			tick.A = int(naps[r.Intn(len(naps))])
		}
		calls = append(calls, tick)
		calls = append(calls, w.Tasks[t][pos:]...)
		w.Tasks[t] = calls
	}
}

func genC02(r *simrt.Rand, tier string, idx uint64) Workload {
	w := &ContWork{Mode: "c02"}
	ad := adapters[int(idx%uint64(len(adapters)))]
	w.Type = ad.name
	w.Cfg = 0
	if ad.name != "cache" {
		w.Cfg = r.Intn(ad.ncfg)
	} else {
		// half of the cache programs are timed: entries with finite expirations, simulated time passing,
		// expired-but-unpurged entries. One in five also runs the cleanup goroutine: its purges are not
		// calls of the program, so such a history is not compared with sequential executions (which have
		// no janitor); it is judged by the conservation oracle alone - an acknowledged store that is
		// surely the last word on its key and surely still live must be there afterwards.
		w.Cfg = []int{0, 0, cacheTimed, cacheTimed | cachePreAged, cacheTimed | cacheJanitor | []int{0, cachePreAged}[r.Intn(2)]}[r.Intn(5)]
		w.Cfg |= []int{0, 0, 1, 2, 3}[r.Intn(5)] << 3 // value type: int, string, []byte, struct
	}
	// alphabet: 2-3 values, collisions on purpose (thorough: sometimes 4-5)
	alpha := 2 + r.Intn(2)
	if tier == "thorough" && r.Intn(5) == 0 {
		alpha = 4 + r.Intn(2)
	}
	w.Alpha = alpha
	sizes := []int{0, 1, 2, 2, 3}
	if tier == "thorough" {
		sizes = []int{0, 1, 2, 2, 3, 4, 6}
	}
	n := sizes[r.Intn(len(sizes))]
	for i := 0; i < n; i++ {
		v := 1 + r.Intn(alpha)
		if ad.name == "trie" || ad.name == "cache" {
			v--
		}
		w.Init = append(w.Init, v)
	}
	if ad.name == "bstree" && r.Intn(2) == 0 {
		w.Init = bushyKeys(r)
	}
	if ad.name == "cache" && w.Cfg&cacheJanitor != 0 && r.Intn(2) == 0 {
		// three distinct keys, so that the initial content is one short-lived, one everlasting and one
		// default-lived entry (buildCache picks the duration by position) when the sweeps begin
		alpha = 3
		w.Alpha = alpha
		w.Init = []int{0, 1, 2}
		for i := 2; i > 0; i-- {
			j := r.Intn(i + 1)
			w.Init[i], w.Init[j] = w.Init[j], w.Init[i]
		}
	}
	if r.Intn(3) == 0 {
		w.Pre = genPre(r, ad, alpha)
	}
	var single []*opDesc
	for i := range ad.ops {
		if ad.ops[i].single {
			single = append(single, &ad.ops[i])
		}
	}
	// shapes: 2x1, 2x2, 3x1 (statement's quantifier); thorough adds larger seeded programs up to 3x3
	shapes := [][]int{{1, 1}, {2, 2}, {2, 1}, {1, 1, 1}, {2, 2}, {1, 1, 1}}
	if tier == "thorough" {
		shapes = append(shapes, []int{3, 3}, []int{2, 2, 2}, []int{3, 2, 1}, []int{3, 3, 2})
	}
	sh := shapes[r.Intn(len(shapes))]
	w.Shape = fmt.Sprint(sh)
	// swarm: 4 runs in 10 draw the calls uniformly, 6 in 10 favour the mutating calls 2:1 (the defects
	// of interest need two mutators to collide; readers are the witnesses of intermediate states)
	var muts, reads []*opDesc
	for _, d := range single {
		if mutatorOps[d.name] {
			muts = append(muts, d)
		} else {
			reads = append(reads, d)
		}
	}
	favour := (r.Intn(10) < 6 || len(w.Pre) > 0) && len(muts) > 0 && len(reads) > 0
	for t, n := range sh {
		var calls []OpCall
		for j := 0; j < n; j++ {
			d := single[r.Intn(len(single))]
			if favour {
				if r.Intn(3) < 2 {
					d = muts[r.Intn(len(muts))]
				} else {
					d = reads[r.Intn(len(reads))]
				}
			}
			calls = append(calls, genCall(r, ad, alpha, d, t, j))
		}
		w.Tasks = append(w.Tasks, calls)
	}
	if (ad.name == "cache" || ad.name == "trie" || ad.name == "bstree") && r.Intn(4) == 0 {
		// hot key: every call of the program names the same key (a defect that needs three calls to
		// meet on one key - `s-c02-n`: two Deletes and an Update - is otherwise a matter of the keys
		// happening to coincide)
		hot, found := 0, false
		for ti := range w.Tasks {
			for ci := range w.Tasks[ti] {
				c := &w.Tasks[ti][ci]
				var d *opDesc
				for i := range ad.ops {
					if ad.ops[i].name == c.Op {
						d = &ad.ops[i]
					}
				}
				if d == nil || d.nargs < 1 || d.aRange > 0 {
					continue
				}
				if !found {
					hot, found = c.A, true
				}
				c.A = hot
			}
		}
	}
	if timedCfg(w.Type, w.Cfg) {
		insertTicks(r, w, 1+r.Intn(2))
	}
	total := 0
	for _, t := range w.Tasks {
		total += len(t)
	}
	w.P = genSimSpec(r, 6*total+4)
	w.P.MaxSteps = 3000
	w.P.HorizonNs = int64(time.Second)
	return w
}

func decodeCont(raw json.RawMessage) (Workload, error) {
	w := &ContWork{}
	if err := json.Unmarshal(raw, w); err != nil {
		return nil, err
	}
	if adapterByName(w.Type) == nil {
		return nil, fmt.Errorf("unknown container type %q", w.Type)
	}
	return w, nil
}

func init() {
	nontrivial := func(o *RunOut) bool { return o.Stats.Switches > 0 }
	register(&propDef{id: "C01", gen: genC01, decode: decodeCont, nontrivial: nontrivial})
	register(&propDef{id: "C02", gen: genC02, decode: decodeCont, nontrivial: nontrivial})
}

// ShapeName is used for per-shape accounting.
func (w *ContWork) ShapeName() string { return w.Type + "/" + w.Shape }

func (w *ContWork) clone() *ContWork {
	c := *w
	c.Init = append([]int(nil), w.Init...)
	c.Pre = append([]OpCall(nil), w.Pre...)
	c.Tasks = make([][]OpCall, len(w.Tasks))
	for i, t := range w.Tasks {
		c.Tasks[i] = append([]OpCall(nil), t...)
	}
	return &c
}

// WithSim implements shrinker.
func (w *ContWork) WithSim(p SimSpec) Workload {
	c := w.clone()
	keepSteps, keepH := c.P.MaxSteps, c.P.HorizonNs
	c.P = p
	c.P.MaxSteps, c.P.HorizonNs = keepSteps, keepH
	return c
}

// Shrinks implements shrinker: drop a task, drop a call, drop an initial element, shrink an argument.
func (w *ContWork) Shrinks() []Workload {
	var out []Workload
	if len(w.Tasks) > 1 {
		for i := range w.Tasks {
			c := w.clone()
			c.Tasks = append(c.Tasks[:i], c.Tasks[i+1:]...)
			out = append(out, c)
		}
	}
	for i := range w.Tasks {
		if len(w.Tasks[i]) <= 1 {
			continue
		}
		for j := range w.Tasks[i] {
			c := w.clone()
			c.Tasks[i] = append(c.Tasks[i][:j], c.Tasks[i][j+1:]...)
			out = append(out, c)
		}
	}
	for i := range w.Init {
		c := w.clone()
		c.Init = append(c.Init[:i], c.Init[i+1:]...)
		out = append(out, c)
	}
	if len(w.Pre) > 0 {
		c := w.clone()
		c.Pre = nil
		out = append(out, c)
		if len(w.Pre) > 3 {
			// drop one grow step together with one drain step
			c = w.clone()
			c.Pre = append(append([]OpCall(nil), w.Pre[1:len(w.Pre)-1]...))
			out = append(out, c)
		}
	}
	if w.Cfg != 0 {
		c := w.clone()
		c.Cfg = 0
		for i := range c.Tasks {
			var l []OpCall
			for _, o := range c.Tasks[i] {
				if o.Op != "Tick" {
					l = append(l, o)
				}
			}
			if len(l) == 0 {
				l = c.Tasks[i]
			}
			c.Tasks[i] = l
		}
		out = append(out, c)
	}
	for i := range w.Tasks {
		for j, o := range w.Tasks[i] {
			if o.A > 1 {
				c := w.clone()
				c.Tasks[i][j].A = o.A - 1
				out = append(out, c)
			}
		}
	}
	return out
}
