package harness

import (
	"encoding/json"
	"fmt"
	"sort"
	"strings"
	"time"

	"github.com/esimov/gogu"

	"verif/simrt"
)

// TOp is one step of a client task of a C20 workload.
type TOp struct {
	Op string `json:"op"` // delay | stop | dcall | dcancel | tcall | tnext | tcancel
	At int64  `json:"at"` // the task sleeps until this simulated instant (ns since start) first; 0 = no sleep
	ID int    `json:"id,omitempty"`
	// LatNs: the function passed by a dcall/delay step stays busy for this much simulated time after
	// it has recorded its start (callback_slow), so that other calls can land while it is running
	LatNs int64 `json:"lat_ns,omitempty"`
}

// TimerWork is a C20 workload: Delay, a debouncer or a throttle driven by client
// tasks at generated instants. Timer callbacks run as scheduled tasks, so "timer
// due but callback not yet run" is a state the other tasks can act in.
type TimerWork struct {
	P        SimSpec `json:"sim"`
	Kind     string  `json:"kind"` // delay | debounce | throttle
	WaitNs   int64   `json:"wait_ns"`
	Trailing bool    `json:"trailing"`
	Tasks    [][]TOp `json:"tasks"`
	MaxDelta int64   `json:"max_fault_delta_ns"`
}

func (w *TimerWork) Sim() SimSpec { return w.P }

func (w *TimerWork) maxLat() int64 {
	var m int64
	for _, t := range w.Tasks {
		for _, o := range t {
			if o.LatNs > m {
				m = o.LatNs
			}
		}
	}
	return m
}

func (w *TimerWork) Key() string {
	return fmt.Sprintf("c20/%s/%d/%v/%v/tf=%v", w.Kind, w.WaitNs, w.Trailing, w.Tasks, w.P.TimeFaults)
}

func (w *TimerWork) ShapeName() string {
	s := w.Kind
	if w.Kind == "throttle" {
		s += fmt.Sprintf("/trailing=%v", w.Trailing)
	}
	s += fmt.Sprintf("/tasks=%d", len(w.Tasks))
	if w.P.TimeFaults {
		s += "/timefaults"
	}
	return s
}

type topRec struct {
	Task int    `json:"task"`
	Idx  int    `json:"idx"`
	Op   string `json:"op"`
	ID   int    `json:"id"`
	Inv  uint64 `json:"inv"`
	Ret  uint64 `json:"ret"`
	TI   int64  `json:"ti"`
	TR   int64  `json:"tr"`
	Bool bool   `json:"bool"`
	Done bool   `json:"done"`
	Fin  bool   `json:"final"` // issued by the closing task after everything else
}

type trun struct {
	ID  int
	Seq uint64
	T   int64
}

// timerShared is the execution log written by timer callbacks (different tasks): norace, fixed size.
type timerShared struct {
	runs [512]trun
	n    int
}

//go:norace
func (s *timerShared) ran(id int, seq uint64, t int64) {
	if s.n < len(s.runs) {
		s.runs[s.n] = trun{id, seq, t}
		s.n++
	}
}

//go:norace
func (s *timerShared) snapshot() []trun { return snapCopy(s.runs[:s.n]) }

//go:norace
func snapshotTOps(recs [][]topRec) []topRec { return snapFlatten(recs) }

type timerHist struct {
	Ops  []topRec
	Runs []trun
}

func (w *TimerWork) Exec(x *Exec) {
	sh := &timerShared{}
	wait := time.Duration(w.WaitNs)
	var dcall func(func())
	var dcancel func()
	var thr interface {
		Call()
		Next() bool
		Cancel()
	}
	switch w.Kind {
	case "debounce":
		dcall, dcancel = gogu.NewDebounce(wait)
	case "throttle":
		thr = gogu.NewThrottle(wait, w.Trailing)
	}
	recs := make([][]topRec, len(w.Tasks)+1)
	var active simrt.CountLatch // tasks that are not blocked consumers
	for ti := range w.Tasks {
		ti := ti
		recs[ti] = make([]topRec, len(w.Tasks[ti]))
		consumer := false
		for j, o := range w.Tasks[ti] {
			recs[ti][j] = topRec{Task: ti, Idx: j, Op: o.Op, ID: o.ID}
			if o.Op == "tnext" {
				consumer = true
			}
		}
		if !consumer {
			active.Add(1)
		}
		x.Spawn(fmt.Sprintf("client%d", ti), func() {
			var tm *time.Timer
			tms := map[int]*time.Timer{}
			for j, o := range w.Tasks[ti] {
				r := &recs[ti][j]
				if d := o.At - x.S.Now(); o.At > 0 && d > 0 {
					simrt.Sleep(time.Duration(d))
				}
				id := o.ID
				lat := time.Duration(o.LatNs)
				body := func() {
					sh.ran(id, simrt.Stamp(), x.S.Now())
					if lat > 0 {
						simrt.Sleep(lat)
					}
				}
				r.Inv, r.TI = simrt.Stamp(), x.S.Now()
				switch o.Op {
				case "delay":
					tm = gogu.Delay(wait, body)
					tms[id] = tm
				case "stop":
					target := tm // ID 0: the most recent Delay
					if id != 0 {
						target = tms[id]
					}
					if target != nil {
						r.Bool = simrt.TimerStop(target)
					}
				case "dcall":
					dcall(body)
				case "dcancel":
					dcancel()
				case "tcall":
					thr.Call()
				case "tnext":
					r.Bool = thr.Next()
				case "tcancel":
					thr.Cancel()
				default:
					panic("harness: unknown C20 op " + o.Op)
				}
				r.Ret, r.TR = simrt.Stamp(), x.S.Now()
				r.Done = true
			}
			if !consumer {
				active.Add(-1)
			}
		})
	}
	// the closing task: once every producer/canceller is done, faults stop, simulated time runs
	// past every pending timer, and (throttle) a final Cancel releases the consumers
	ci := len(w.Tasks)
	recs[ci] = make([]topRec, 1)
	x.Spawn("closer", func() {
		active.Wait()
		x.S.StopFaults()
		simrt.Sleep(time.Duration(2*w.WaitNs + w.MaxDelta + w.maxLat() + 1))
		r := &recs[ci][0]
		*r = topRec{Task: ci, Op: "settled", Fin: true}
		r.Inv, r.TI = simrt.Stamp(), x.S.Now()
		if w.Kind == "throttle" {
			r.Op = "tcancel"
			thr.Cancel()
		}
		r.Ret, r.TR = simrt.Stamp(), x.S.Now()
		r.Done = true
	})
	end := x.RunPhase()
	h := &timerHist{Ops: snapshotTOps(recs), Runs: sh.snapshot()}
	for _, o := range h.Ops {
		x.Note(fmt.Sprint(o))
	}
	for _, r := range h.Runs {
		x.Note(fmt.Sprint(r))
	}
	x.Out.timerHist = h
	if end == simrt.EndDeadlock {
		id := "c20:" + w.Kind + ":blocks-forever"
		detail := "a call never returned: "
		if w.Kind == "throttle" {
			closed := false
			for _, o := range h.Ops {
				if o.Fin && o.Done {
					closed = true
				}
			}
			if closed {
				id = "c20:throttle:next-pending-after-cancel"
				detail = "Cancel returned but a pending Next never did: "
			}
		}
		x.Violate("deadlock", id, detail+x.S.EndDetail)
	}
}

func (w *TimerWork) Post(out *RunOut) {
	h := out.timerHist
	if h == nil {
		return
	}
	sort.SliceStable(h.Ops, func(a, b int) bool { return h.Ops[a].Inv < h.Ops[b].Inv })
	for _, o := range h.Ops {
		if o.Inv == 0 {
			continue
		}
		out.History = append(out.History, fmt.Sprintf("client%d#%d %s(id=%d) seq[%d,%d] t[%s,%s] -> %v done=%v", o.Task, o.Idx, o.Op, o.ID, o.Inv, o.Ret, time.Duration(o.TI), time.Duration(o.TR), o.Bool, o.Done))
	}
	for _, r := range h.Runs {
		out.History = append(out.History, fmt.Sprintf("  function %d ran at seq %d t=%s", r.ID, r.Seq, time.Duration(r.T)))
	}
	fail := func(clause, format string, a ...any) {
		out.Violations = append(out.Violations, Violation{Class: "oracle", Identity: "c20:" + w.Kind + ":" + clause,
			Detail: fmt.Sprintf(format, a...) + fmt.Sprintf("\nconfiguration: wait %s trailing %v time faults %v\nhistory:\n  %s",
				time.Duration(w.WaitNs), w.Trailing, w.P.TimeFaults, strings.Join(out.History, "\n  "))})
	}
	out.Count("c20_function_runs", len(h.Runs))
	nops := 0
	for _, o := range h.Ops {
		if o.Done && !o.Fin {
			nops++
		}
	}
	out.Count("c20_ops", nops)
	settled := out.End == simrt.EndOK
	runsOf := func(id int) []trun {
		var l []trun
		for _, r := range h.Runs {
			if r.ID == id {
				l = append(l, r)
			}
		}
		return l
	}
	exact := 0
	switch w.Kind {
	case "delay":
		nDelays := 0
		for i := range h.Ops {
			if h.Ops[i].Op == "delay" {
				nDelays++
			}
		}
		// the Stop calls made on the timer a given Delay returned
		stopsOf := func(id int) []*topRec {
			var l []*topRec
			for i := range h.Ops {
				if h.Ops[i].Op == "stop" && h.Ops[i].Done && (h.Ops[i].ID == id || (h.Ops[i].ID == 0 && nDelays == 1)) {
					l = append(l, &h.Ops[i])
				}
			}
			return l
		}
		for i := range h.Ops {
			o := &h.Ops[i]
			if o.Op != "delay" || !o.Done {
				continue
			}
			rs := runsOf(o.ID)
			if len(rs) > 1 {
				fail("ran-twice", "the function of delay #%d ran %d times", o.ID, len(rs))
				return
			}
			for _, r := range rs {
				exact++
				if r.T < o.TI+w.WaitNs {
					fail("early", "the function of delay #%d ran at %s, sooner than the wait %s after the call at %s", o.ID, time.Duration(r.T), time.Duration(w.WaitNs), time.Duration(o.TI))
					return
				}
			}
			stopped := false
			for _, stop := range stopsOf(o.ID) {
				if stop.Bool {
					stopped = true
				}
				if stop.Bool && len(rs) > 0 {
					fail("ran-after-stop", "Stop on the timer of delay #%d returned true at %s but its function ran at %s", o.ID, time.Duration(stop.TR), time.Duration(rs[0].T))
					return
				}
				// whatever Stop answered: a Stop that had returned at an instant strictly before the due
				// instant came before the timer could fire ("not at all after cancel")
				if stop.Inv > o.Ret && stop.TR < o.TI+w.WaitNs && len(rs) > 0 {
					fail("ran-after-stop-before-due", "Stop on the timer of delay #%d returned (%v) at %s, before the due instant %s of the delay started at %s, yet its function ran at %s",
						o.ID, stop.Bool, time.Duration(stop.TR), time.Duration(o.TI+w.WaitNs), time.Duration(o.TI), time.Duration(rs[0].T))
					return
				}
			}
			if settled && len(rs) == 0 && !stopped {
				fail("never-ran", "the function of delay #%d never ran although nobody stopped its timer (no Stop on it, or Stop returned false)", o.ID)
				return
			}
		}
	case "debounce":
		var ops []*topRec
		for i := range h.Ops {
			if (h.Ops[i].Op == "dcall" || h.Ops[i].Op == "dcancel") && h.Ops[i].Done {
				ops = append(ops, &h.Ops[i])
			}
		}
		for _, o := range ops {
			if o.Op != "dcall" {
				continue
			}
			rs := runsOf(o.ID)
			if len(rs) > 1 {
				fail("ran-twice", "the function passed by call %d ran %d times", o.ID, len(rs))
				return
			}
			for _, r := range rs {
				exact++
				if r.T < o.TI+w.WaitNs {
					fail("early", "the function passed by call %d (made at %s) ran at %s, sooner than the wait %s after it", o.ID, time.Duration(o.TI), time.Duration(r.T), time.Duration(w.WaitNs))
					return
				}
			}
			superseded := false
			last := true
			for _, p := range ops {
				if p == o {
					continue
				}
				if !(p.Ret < o.Inv) {
					last = false // "last" means: strictly after every other operation on the debouncer
				}
				// p strictly follows o, and had returned before o's timer could be due
				if p.Inv > o.Ret && p.TR < o.TI+w.WaitNs {
					superseded = true
					if len(rs) > 0 {
						what := "a newer call"
						clause := "ran-despite-newer-call"
						if p.Op == "dcancel" {
							what, clause = "cancel", "ran-after-cancel"
						}
						fail(clause, "the function passed by call %d (made at %s, due no sooner than %s) ran at %s although %s had returned at %s, before it was due", o.ID, time.Duration(o.TI), time.Duration(o.TI+w.WaitNs), time.Duration(rs[0].T), what, time.Duration(p.TR))
						return
					}
				}
			}
			if settled && last && !superseded && len(rs) == 0 {
				fail("never-ran", "call %d (made at %s) was the last operation on the debouncer, no later call or cancel arrived, yet its function never ran", o.ID, time.Duration(o.TI))
				return
			}
		}
	case "throttle":
		var calls, nexts, cancels []*topRec
		for i := range h.Ops {
			o := &h.Ops[i]
			if !o.Done {
				continue
			}
			switch o.Op {
			case "tcall":
				calls = append(calls, o)
			case "tnext":
				nexts = append(nexts, o)
			case "tcancel":
				cancels = append(cancels, o)
			}
		}
		var firstCancel *topRec
		for _, c := range cancels {
			if firstCancel == nil || c.Ret < firstCancel.Ret {
				firstCancel = c
			}
		}
		var grants []*topRec
		for _, n := range nexts {
			if n.Bool {
				grants = append(grants, n)
			}
		}
		sort.Slice(grants, func(a, b int) bool { return grants[a].Ret < grants[b].Ret })
		out.Count("c20_grants", len(grants))
		// P4: after Cancel has returned, every Next returns false. A Next that was invoked before Cancel
		// returned may have been handed its permission before Cancel took effect and merely return later
		// (any implementation can be preempted between the two; one built on channels has a scheduling
		// point there): that is a grant before Cancel. It is a grant after Cancel for certain when the
		// Next was invoked after Cancel had returned, or - no time faults, so a task that can run is never
		// held back while simulated time passes - when it returned at a later instant than Cancel did.
		if firstCancel != nil {
			for _, n := range nexts {
				if n.Bool && (n.Inv > firstCancel.Ret || (!w.P.TimeFaults && n.Ret > firstCancel.Ret && n.TR > firstCancel.TR)) {
					fail("grant-after-cancel", "Next (client%d#%d, invoked at seq %d) returned true at seq %d (%s), after Cancel had returned at seq %d (%s)", n.Task, n.Idx, n.Inv, n.Ret, time.Duration(n.TR), firstCancel.Ret, time.Duration(firstCancel.TR))
					return
				}
				if !w.P.TimeFaults && n.Inv > firstCancel.Ret && n.TR != n.TI {
					fail("next-after-cancel-not-prompt", "Next (client%d#%d) was called after Cancel had returned and took %s to return", n.Task, n.Idx, time.Duration(n.TR-n.TI))
					return
				}
				if !w.P.TimeFaults && n.Inv < firstCancel.Ret && n.Ret > firstCancel.Ret && n.TR != firstCancel.TR {
					fail("pending-next-not-released-by-cancel", "Next (client%d#%d) was pending when Cancel returned at %s but returned only at %s", n.Task, n.Idx, time.Duration(firstCancel.TR), time.Duration(n.TR))
					return
				}
			}
		}
		// P1: at most one permission per period
		if !w.P.TimeFaults {
			for i := 1; i < len(grants); i++ {
				a, b := grants[i-1], grants[i]
				exact++
				// no simulated time passes between the grant and the return of Next: return instant = grant instant
				if b.TR-a.TR < w.WaitNs {
					fail("two-grants-in-one-period", "Next returned true at %s (client%d#%d) and again at %s (client%d#%d): %s apart, less than the period %s", time.Duration(a.TR), a.Task, a.Idx, time.Duration(b.TR), b.Task, b.Idx, time.Duration(b.TR-a.TR), time.Duration(w.WaitNs))
					return
				}
			}
		} else {
			// under time faults a Next may be held back anywhere, also between being handed its permission
			// and returning: each permission was handed out somewhere inside its call, so two of them are
			// less than a period apart for certain only when the farthest two instants of the two calls are
			for i := 0; i < len(grants); i++ {
				for j := i + 1; j < len(grants); j++ {
					a, b := grants[i], grants[j]
					exact++
					span := b.TR - a.TI
					if a.TR-b.TI > span {
						span = a.TR - b.TI
					}
					if span < w.WaitNs {
						fail("two-grants-in-one-period", "two Next calls that both returned true lie entirely within %s of each other ([%s,%s] and [%s,%s]), less than the period %s", time.Duration(span), time.Duration(a.TI), time.Duration(a.TR), time.Duration(b.TI), time.Duration(b.TR), time.Duration(w.WaitNs))
						return
					}
				}
			}
		}
		// P2: the k-th permission needs k triggers
		for k, g := range grants {
			n := 0
			for _, c := range calls {
				if c.Inv < g.Ret {
					n++
				}
			}
			if n < k+1 {
				fail("more-grants-than-triggers", "permission number %d was handed out (seq %d) when only %d triggers had been made", k+1, g.Ret, n)
				return
			}
		}
		if !w.P.TimeFaults {
			// P2', trailing off: every permission after the first answers a trigger that arrived more than
			// a period after the previous permission (a trigger inside the period is dropped, not kept)
			if !w.Trailing {
				for i := 1; i < len(grants); i++ {
					a, b := grants[i-1], grants[i]
					ok := false
					for _, c := range calls {
						if c.Inv < b.Ret && c.TR >= a.TR+w.WaitNs {
							ok = true
						}
					}
					if !ok {
						fail("dropped-trigger-kept", "trailing is off, yet Next returned true at %s although no trigger arrived at or after %s (one period after the previous permission at %s)", time.Duration(b.TR), time.Duration(a.TR+w.WaitNs), time.Duration(a.TR))
						return
					}
				}
			}
			// P5: a trigger that finds a consumer waiting, more than a period after the last permission,
			// releases it in the same instant
			for _, c := range calls {
				if firstCancel != nil && firstCancel.TI <= c.TR {
					continue // a Cancel in the same instant may win the race for the woken consumer
				}
				var prev *topRec
				for _, g := range grants {
					if g.Ret < c.Inv {
						prev = g
					}
				}
				if prev != nil && c.TI <= prev.TR+w.WaitNs {
					continue // inside the period (or on its boundary): trailing territory
				}
				// an earlier trigger since prev may still be pending unconsumed: then this one is a no-op
				pendingEarlier := false
				for _, c2 := range calls {
					if c2 != c && c2.Inv < c.Inv && (prev == nil || c2.Ret > prev.Ret) {
						pendingEarlier = true
					}
				}
				if pendingEarlier {
					continue
				}
				waiting := false
				for _, n := range nexts {
					if n.Inv < c.Inv && n.Ret > c.Ret {
						waiting = true
					}
				}
				if !waiting {
					continue
				}
				exact++
				served := false
				for _, g := range grants {
					if g.Ret > c.Inv && g.TR == c.TR {
						served = true
					}
				}
				if !served {
					fail("trigger-did-not-release-waiting-next", "the trigger at %s (seq %d) came more than a period after the last permission while a Next was waiting, but no Next returned true at that instant", time.Duration(c.TI), c.Inv)
					return
				}
			}
			// P3 (trailing on): a trigger inside the period is honoured at the period's end when a consumer waits
			if w.Trailing {
				for _, c := range calls {
					var prev *topRec
					for _, g := range grants {
						if g.Ret < c.Inv {
							prev = g
						}
					}
					if prev == nil || c.TI > prev.TR+w.WaitNs {
						continue
					}
					end := prev.TR + w.WaitNs
					if firstCancel != nil && firstCancel.TI <= end {
						continue
					}
					pendingEarlier := false
					for _, c2 := range calls {
						if c2 != c && c2.Inv < c.Inv && c2.Ret > prev.Ret {
							pendingEarlier = true
						}
					}
					if pendingEarlier {
						continue
					}
					// a consumer that is waiting from before the trigger until after the period's end
					waiting := false
					for _, n := range nexts {
						if n.Inv < c.Inv && n.TR >= end && n.Ret > c.Ret {
							waiting = true
						}
					}
					if !waiting {
						continue
					}
					// another permission handed out while the trigger was in flight moves the period: ambiguous
					moved := false
					for _, g := range grants {
						if g.Ret > c.Inv && g.TR < end {
							moved = true
						}
					}
					if moved {
						continue
					}
					exact++
					served := false
					for _, g := range grants {
						if g.Ret > c.Inv && g.TR == end {
							served = true
						}
					}
					if !served {
						fail("trailing-trigger-not-honoured-at-period-end", "trailing is on: the trigger at %s fell inside the period that ends at %s while a Next was waiting, but no Next returned true at the period's end", time.Duration(c.TI), time.Duration(end))
						return
					}
				}
			}
		}
		// liveness once faults have stopped: a trigger that must be honoured was pending with a
		// consumer waiting until the closing Cancel
		if settled {
			var closing *topRec
			for i := range h.Ops {
				if h.Ops[i].Fin && h.Ops[i].Done {
					closing = &h.Ops[i]
				}
			}
			if closing != nil && (firstCancel == nil || firstCancel == closing) {
				var lastGrant *topRec
				if len(grants) > 0 {
					lastGrant = grants[len(grants)-1]
				}
				for _, c := range calls {
					if lastGrant != nil && c.Inv < lastGrant.Ret {
						continue
					}
					must := w.Trailing || lastGrant == nil || c.TI > lastGrant.TR+w.WaitNs
					if !must {
						continue
					}
					for _, n := range nexts {
						// the Next must have been waiting at an instant strictly before the closing Cancel's: one
						// invoked in the very same instant may simply lose the race for the mutex to the Cancel
						if !n.Bool && n.Inv < closing.Inv && n.Ret > closing.Inv && n.TI < closing.TI {
							fail("pending-trigger-never-granted", "the trigger at %s (seq %d) had to be honoured, a Next (client%d#%d) kept waiting, yet it was only released (false) by the closing Cancel at %s", time.Duration(c.TI), c.Inv, n.Task, n.Idx, time.Duration(closing.TI))
							return
						}
					}
				}
			}
		}
	}
	out.Count("c20_exact_assertions", exact)
}

func genC20(r *simrt.Rand, tier string, idx uint64) Workload {
	w := &TimerWork{}
	w.Kind = []string{"delay", "debounce", "throttle", "debounce", "throttle", "throttle"}[int(idx%6)]
	w.WaitNs = []int64{5 * ms, 10 * ms, 50 * ms}[r.Intn(3)]
	wt := w.WaitNs
	faulty := (idx/6)%3 == 2
	gap := func() int64 {
		switch r.Intn(9) {
		case 0:
			return 0
		case 1:
			return 1
		case 2:
			return wt - 1
		case 3:
			return wt
		case 4:
			return wt + 1
		case 5:
			return wt / 2
		case 6:
			return 2*wt + 1
		default:
			return r.Int63n(2 * wt)
		}
	}
	switch w.Kind {
	case "delay":
		ops := []TOp{{Op: "delay", At: r.Int63n(3) * ms, ID: 1, LatNs: []int64{0, 0, 0, 2 * ms}[r.Intn(4)]}}
		if r.Bool(0.7) {
			ops = append(ops, TOp{Op: "stop", At: ops[0].At + gap()})
		}
		if r.Intn(3) == 0 {
			// several Delays, pending together or one after the other, and Stops on any of the timers
			// they returned - also on one whose function has long run
			ops = ops[:1]
			at := ops[0].At
			for k := 2; k <= 2+r.Intn(2); k++ {
				at += gap()
				ops = append(ops, TOp{Op: "delay", At: at, ID: k})
			}
			nd := len(ops)
			for k := 0; k < 1+r.Intn(3); k++ {
				target := 1 + r.Intn(nd)
				ops = append(ops, TOp{Op: "stop", ID: target, At: ops[target-1].At + gap() + int64(r.Intn(3))*w.WaitNs})
			}
			sort.SliceStable(ops, func(i, j int) bool { return ops[i].At < ops[j].At })
		}
		w.Tasks = [][]TOp{ops}
	case "debounce":
		nt := 1 + r.Intn(3)
		id := 0
		slow := r.Intn(3) == 0
		for t := 0; t < nt; t++ {
			n := 1 + r.Intn(8)
			if tier == "thorough" && r.Bool(0.2) {
				n = 10 + r.Intn(41) // bursts of up to 50 calls
			}
			at := gap()
			var ops []TOp
			for j := 0; j < n; j++ {
				id++
				if r.Bool(0.15) {
					ops = append(ops, TOp{Op: "dcancel", At: at})
				} else {
					o := TOp{Op: "dcall", At: at, ID: id}
					if slow {
						// the debounced function stays busy for a while: later calls and cancels can land
						// while it is still running
						o.LatNs = []int64{0, 1, 2 * ms, w.WaitNs / 2, w.WaitNs + 1}[r.Intn(5)]
					}
					ops = append(ops, o)
				}
				at += gap()
			}
			w.Tasks = append(w.Tasks, ops)
		}
	case "throttle":
		w.Trailing = r.Bool(0.5)
		np := 1 + r.Intn(2)
		nc := 1 + r.Intn(2)
		total := 0
		for t := 0; t < np; t++ {
			n := 1 + r.Intn(4)
			at := gap()
			var ops []TOp
			for j := 0; j < n; j++ {
				ops = append(ops, TOp{Op: "tcall", At: at})
				at += gap()
				total++
			}
			if t == 0 && r.Bool(0.25) {
				ops = append(ops, TOp{Op: "tcancel", At: at})
			}
			w.Tasks = append(w.Tasks, ops)
		}
		for t := 0; t < nc; t++ {
			n := 1 + r.Intn(4)
			var ops []TOp
			at := int64(0)
			for j := 0; j < n; j++ {
				if r.Bool(0.4) {
					at += gap()
				}
				ops = append(ops, TOp{Op: "tnext", At: at})
			}
			w.Tasks = append(w.Tasks, ops)
		}
	}
	total := 0
	for _, t := range w.Tasks {
		total += len(t)
	}
	w.P = genSimSpec(r, 10*total+10)
	w.P.MaxSteps = 8000
	if 80*total > w.P.MaxSteps {
		w.P.MaxSteps = 80 * total // long bursts (thorough: up to 150 calls) need more scheduling steps
	}
	w.P.HorizonNs = int64(time.Hour)
	if faulty {
		w.P.TimeFaults = true
		w.P.StallP = []float64{0.03, 0.1}[r.Intn(2)]
		w.P.JumpP = []float64{0, 0.01}[r.Intn(2)]
		w.P.DeltasNs = []int64{1, wt - 1, wt, wt + 1, wt / 2, 2 * wt, 10 * wt}
		w.P.JumpsNs = []int64{100 * wt, 10000 * wt}
		w.P.FaultSteps = 1 << 30
		w.MaxDelta = 10 * wt
	}
	return w
}

func decodeC20(raw json.RawMessage) (Workload, error) {
	w := &TimerWork{}
	if err := json.Unmarshal(raw, w); err != nil {
		return nil, err
	}
	return w, nil
}

func (w *TimerWork) clone() *TimerWork {
	c := *w
	c.Tasks = make([][]TOp, len(w.Tasks))
	for i, t := range w.Tasks {
		c.Tasks[i] = append([]TOp(nil), t...)
	}
	return &c
}

// WithSim implements shrinker.
func (w *TimerWork) WithSim(p SimSpec) Workload {
	c := w.clone()
	q := c.P
	q.Policy, q.PCTDepth, q.PCTSteps, q.PreemptP = p.Policy, p.PCTDepth, p.PCTSteps, p.PreemptP
	c.P = q
	return c
}

// Shrinks implements shrinker.
func (w *TimerWork) Shrinks() []Workload {
	var out []Workload
	if w.P.TimeFaults {
		c := w.clone()
		c.P.TimeFaults, c.P.StallP, c.P.JumpP = false, 0, 0
		c.MaxDelta = 0
		out = append(out, c)
	}
	if len(w.Tasks) > 1 {
		for i := range w.Tasks {
			c := w.clone()
			c.Tasks = append(c.Tasks[:i], c.Tasks[i+1:]...)
			out = append(out, c)
		}
	}
	for i := range w.Tasks {
		if len(w.Tasks[i]) > 1 {
			for j := range w.Tasks[i] {
				c := w.clone()
				c.Tasks[i] = append(c.Tasks[i][:j], c.Tasks[i][j+1:]...)
				out = append(out, c)
			}
		}
	}
	for i := range w.Tasks {
		for j, o := range w.Tasks[i] {
			if o.At > 0 {
				c := w.clone()
				c.Tasks[i][j].At = 0
				out = append(out, c)
			}
		}
	}
	return out
}

func init() {
	register(&propDef{id: "C20", gen: genC20, decode: decodeC20, nontrivial: func(o *RunOut) bool {
		return o.Counters["c20_ops"] > 0 && o.Stats.TimerTasks+o.Counters["c20_grants"] > 0
	}})
}
