package harness

import (
	"fmt"
	"os"
	"regexp"
	"sort"
	"strings"
)

// RaceReport is one parsed report of the Go race detector.
type RaceReport struct {
	Access  [2]RaceAccess `json:"access"`
	Harness bool          `json:"harness"` // an accessing frame belongs to the simulator or to harness bookkeeping: harness trouble, not a verdict
	Text    string        `json:"text"`
}

// RaceAccess is one of the two conflicting accesses.
type RaceAccess struct {
	Kind   string   `json:"kind"` // read | write
	Func   string   `json:"func"` // entry point: outermost esimov/gogu (or x/sync) frame, or the harness consumer function
	Inner  string   `json:"inner"`
	Frames []string `json:"frames"`
}

// Identity is the stable name of the race: the unordered pair of (entry point, read|write).
func (r RaceReport) Identity() string {
	a := r.Access[0].Func + ":" + r.Access[0].Kind
	b := r.Access[1].Func + ":" + r.Access[1].Kind
	if b < a {
		a, b = b, a
	}
	return "race:" + a + " <-> " + b
}

func raceLogPath() string {
	p := os.Getenv("VERIF_RACELOG")
	if p == "" {
		return ""
	}
	return fmt.Sprintf("%s.%d", p, os.Getpid())
}

func raceLogOffset() int64 {
	p := raceLogPath()
	if p == "" {
		return 0
	}
	st, err := os.Stat(p)
	if err != nil {
		return 0
	}
	return st.Size()
}

var accessHdr = regexp.MustCompile(`^(Previous )?(\w+ )?([Rr]ead|[Ww]rite) at 0x[0-9a-f]+ by `)
var typeArgs = regexp.MustCompile(`\[[^\[\]]*\]`)

func normFunc(f string) string {
	f = strings.TrimSuffix(strings.TrimSpace(f), "()")
	for {
		g := typeArgs.ReplaceAllString(f, "")
		if g == f {
			break
		}
		f = g
	}
	return f
}

func shortFunc(f string) string {
	f = strings.TrimPrefix(f, "github.com/esimov/gogu/")
	f = strings.TrimPrefix(f, "github.com/esimov/")
	f = strings.TrimPrefix(f, "golang.org/x/sync/")
	f = strings.TrimPrefix(f, "verif/")
	return f
}

func isLib(f string) bool {
	return strings.HasPrefix(f, "github.com/esimov/gogu") || strings.HasPrefix(f, "golang.org/x/sync")
}

func isConsumer(f string) bool {
	return strings.HasPrefix(f, "verif/harness.consume") || strings.HasPrefix(f, "verif/harness.user")
}

// readRaceReports parses the reports the race runtime wrote to its log between the two offsets
// (to < 0: up to the end of the file).
func readRaceReports(from, to int64) []RaceReport {
	p := raceLogPath()
	if p == "" {
		return nil
	}
	b, err := os.ReadFile(p)
	if err != nil || int64(len(b)) <= from {
		return nil
	}
	if to < 0 || to > int64(len(b)) {
		to = int64(len(b))
	}
	if to <= from {
		return nil
	}
	return parseRaceReports(string(b[from:to]))
}

func parseRaceReports(text string) []RaceReport {
	var out []RaceReport
	blocks := strings.Split(text, "==================")
	for _, blk := range blocks {
		if !strings.Contains(blk, "WARNING: DATA RACE") {
			continue
		}
		var rep RaceReport
		rep.Text = strings.TrimSpace(blk)
		lines := strings.Split(blk, "\n")
		na := 0
		for i := 0; i < len(lines) && na < 2; i++ {
			m := accessHdr.FindStringSubmatch(lines[i])
			if m == nil {
				continue
			}
			acc := RaceAccess{Kind: strings.ToLower(m[3])}
			for j := i + 1; j < len(lines); j++ {
				l := lines[j]
				if strings.TrimSpace(l) == "" {
					break
				}
				if strings.HasPrefix(l, "      ") { // file:line
					continue
				}
				if strings.HasPrefix(l, "  ") {
					acc.Frames = append(acc.Frames, normFunc(l))
				}
			}
			// innermost frame that is not runtime/internal/sync plumbing
			inner := ""
			for _, f := range acc.Frames {
				if strings.HasPrefix(f, "runtime.") || strings.HasPrefix(f, "internal/") || strings.HasPrefix(f, "sync.") || strings.HasPrefix(f, "sync/atomic.") {
					continue
				}
				inner = f
				break
			}
			acc.Inner = shortFunc(inner)
			// entry point: outermost library frame; else the consumer
			entry := ""
			for _, f := range acc.Frames {
				if isLib(f) {
					entry = f
				}
			}
			if entry == "" {
				for _, f := range acc.Frames {
					if isConsumer(f) {
						entry = f
						break
					}
				}
			}
			if strings.HasPrefix(inner, "verif/simrt") || (strings.HasPrefix(inner, "verif/harness") && !isConsumer(inner)) || entry == "" {
				rep.Harness = true
				if entry == "" {
					entry = inner
				}
			}
			acc.Func = shortFunc(entry)
			rep.Access[na] = acc
			na++
		}
		if na < 2 {
			rep.Harness = true
		}
		out = append(out, rep)
	}
	return out
}

func sortedKeys(m map[string]int) []string {
	k := make([]string, 0, len(m))
	for s := range m {
		k = append(k, s)
	}
	sort.Strings(k)
	return k
}
