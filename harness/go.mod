module verif/harness

go 1.26

require (
	github.com/anishathalye/porcupine v1.3.0
	github.com/esimov/gogu v0.0.0
	golang.org/x/exp v0.0.0-20230303215020-44a13b063f3e
	golang.org/x/sync v0.1.0
	verif/simrt v0.0.0
)
