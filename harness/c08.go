package harness

import (
	"encoding/json"
	"fmt"
	"sort"
	"strings"
	"time"

	"github.com/esimov/gogu/cache"

	"verif/simrt"
)

// ---------------------------------------------------------------- workload

// COp is one step of a cache client.
type COp struct {
	Op string `json:"op"`
	K  int    `json:"k,omitempty"`  // key index
	V  int    `json:"v,omitempty"`  // value (0 renders as the rejected empty string in the string-valued variant)
	D  int64  `json:"d,omitempty"`  // duration argument in ns (0 = DefaultExpiration, -1 = NoExpiration)
	K2 int    `json:"k2,omitempty"` // MapToCache: second key (-1: none)
	V2 int    `json:"v2,omitempty"`
	T  int64  `json:"t,omitempty"` // SleepUntil: absolute simulated ns since the start of the run
}

func (o COp) String() string {
	switch o.Op {
	case "SleepUntil":
		return fmt.Sprintf("SleepUntil(%s)", time.Duration(o.T))
	case "Set", "Update":
		return fmt.Sprintf("%s(k%d,%d,%s)", o.Op, o.K, o.V, durName(o.D))
	case "SetDefault":
		return fmt.Sprintf("SetDefault(k%d,%d)", o.K, o.V)
	case "MapToCache":
		return fmt.Sprintf("MapToCache({k%d:%d,k%d:%d},%s)", o.K, o.V, o.K2, o.V2, durName(o.D))
	case "Get", "Delete", "IsExpired":
		return fmt.Sprintf("%s(k%d)", o.Op, o.K)
	}
	return o.Op + "()"
}

func durName(d int64) string {
	switch d {
	case 0:
		return "Default"
	case -1:
		return "NoExpiration"
	}
	return time.Duration(d).String()
}

// CacheWork is a C08 workload: one client driving an expiring cache through simulated time,
// with the library's own cleanup goroutine as a scheduled task.
type CacheWork struct {
	P        SimSpec `json:"sim"`
	DefExp   int64   `json:"default_expiry_ns"`
	Cleanup  int64   `json:"cleanup_ns"`
	StrVals  bool    `json:"string_values"`
	Ops      []COp   `json:"ops"`
	MaxDelta int64   `json:"max_fault_delta_ns"`
}

func (w *CacheWork) Sim() SimSpec { return w.P }

func (w *CacheWork) Key() string {
	var b strings.Builder
	fmt.Fprintf(&b, "c08/%d/%d/%v/%v", w.DefExp, w.Cleanup, w.StrVals, w.P.TimeFaults)
	for _, o := range w.Ops {
		b.WriteString("|" + o.String())
	}
	return b.String()
}

func (w *CacheWork) ShapeName() string {
	f := "faultfree"
	if w.P.TimeFaults {
		f = "timefaults"
	}
	return fmt.Sprintf("def=%s/cleanup=%s/%s", durName(w.DefExp), time.Duration(w.Cleanup), f)
}

// CRec is the record of one executed step.
type CRec struct {
	Op   COp            `json:"op"`
	TI   int64          `json:"ti"` // simulated ns at invocation
	TR   int64          `json:"tr"` // simulated ns at return
	Err  bool           `json:"err,omitempty"`
	Val  int            `json:"val,omitempty"`
	Bool bool           `json:"bool,omitempty"`
	N    int            `json:"n,omitempty"`
	List map[string]int `json:"list,omitempty"`
	Done bool           `json:"done"`
}

// tcache hides the value type (int or string) behind int values.
type tcache interface {
	Set(k string, v int, d time.Duration) error
	SetDefault(k string, v int) error
	Update(k string, v int, d time.Duration) error
	Get(k string) (int, error)
	Delete(k string) error
	Flush()
	DeleteExpired() error
	Count() int
	List() map[string]int
	MapToCache(m map[string]int, d time.Duration) error
	IsExpired(k string) bool
}

type intCache struct{ c *cache.Cache[string, int] }

func (x intCache) Set(k string, v int, d time.Duration) error    { return x.c.Set(k, v, d) }
func (x intCache) SetDefault(k string, v int) error              { return x.c.SetDefault(k, v) }
func (x intCache) Update(k string, v int, d time.Duration) error { return x.c.Update(k, v, d) }
func (x intCache) Get(k string) (int, error) {
	it, err := x.c.Get(k)
	return it.Val(), err
}
func (x intCache) Delete(k string) error { return x.c.Delete(k) }
func (x intCache) Flush()                { x.c.Flush() }
func (x intCache) DeleteExpired() error  { return x.c.DeleteExpired() }
func (x intCache) Count() int            { return x.c.Count() }
func (x intCache) List() map[string]int {
	out := map[string]int{}
	for k, it := range x.c.List() {
		out[k] = it.Val()
	}
	return out
}
func (x intCache) MapToCache(m map[string]int, d time.Duration) error { return x.c.MapToCache(m, d) }
func (x intCache) IsExpired(k string) bool                            { return x.c.IsExpired(k) }

type strCache struct{ c *cache.Cache[string, string] }

func sv(v int) string {
	if v == 0 {
		return ""
	}
	return fmt.Sprintf("v%d", v)
}

func vs(s string) int {
	if s == "" {
		return 0
	}
	var v int
	fmt.Sscanf(s, "v%d", &v)
	return v
}

func (x strCache) Set(k string, v int, d time.Duration) error    { return x.c.Set(k, sv(v), d) }
func (x strCache) SetDefault(k string, v int) error              { return x.c.SetDefault(k, sv(v)) }
func (x strCache) Update(k string, v int, d time.Duration) error { return x.c.Update(k, sv(v), d) }
func (x strCache) Get(k string) (int, error) {
	it, err := x.c.Get(k)
	return vs(it.Val()), err
}
func (x strCache) Delete(k string) error { return x.c.Delete(k) }
func (x strCache) Flush()                { x.c.Flush() }
func (x strCache) DeleteExpired() error  { return x.c.DeleteExpired() }
func (x strCache) Count() int            { return x.c.Count() }
func (x strCache) List() map[string]int {
	out := map[string]int{}
	for k, it := range x.c.List() {
		out[k] = vs(it.Val())
	}
	return out
}
func (x strCache) MapToCache(m map[string]int, d time.Duration) error {
	sm := map[string]string{}
	for k, v := range m {
		sm[k] = sv(v)
	}
	return x.c.MapToCache(sm, d)
}
func (x strCache) IsExpired(k string) bool { return x.c.IsExpired(k) }

func (w *CacheWork) Exec(x *Exec) {
	var c tcache
	if w.StrVals {
		c = strCache{cache.New[string, string](time.Duration(w.DefExp), time.Duration(w.Cleanup))}
	} else {
		c = intCache{cache.New[string, int](time.Duration(w.DefExp), time.Duration(w.Cleanup))}
	}
	recs := make([]CRec, len(w.Ops))
	var panicMsg string
	x.Spawn("client", func() {
		defer func() {
			if p := recover(); p != nil {
				panicMsg = fmt.Sprint(p)
			}
		}()
		for i, o := range w.Ops {
			r := &recs[i]
			r.Op = o
			if o.Op == "Settle" {
				// faults stop here; what follows is the "once faults stop" part of the run
				x.S.StopFaults()
			}
			r.TI = x.S.Now()
			switch o.Op {
			case "SleepUntil":
				if d := o.T - x.S.Now(); d > 0 {
					simrt.Sleep(time.Duration(d))
				}
			case "Settle":
				// sleep past every deadline (entries live at most 70 ms), every outstanding fault and two
				// full cleanup intervals, measured from the clock as it is now
				target := o.T
				if n := x.S.Now() + w.MaxDelta + 70*ms + 2*w.Cleanup + 1; n > target {
					target = n
				}
				simrt.Sleep(time.Duration(target - x.S.Now()))
			case "Set":
				r.Err = c.Set(ck(o.K), o.V, time.Duration(o.D)) != nil
			case "SetDefault":
				r.Err = c.SetDefault(ck(o.K), o.V) != nil
			case "Update":
				r.Err = c.Update(ck(o.K), o.V, time.Duration(o.D)) != nil
			case "Get":
				v, err := c.Get(ck(o.K))
				r.Val, r.Err = v, err != nil
			case "Delete":
				r.Err = c.Delete(ck(o.K)) != nil
			case "Flush":
				c.Flush()
			case "DeleteExpired":
				r.Err = c.DeleteExpired() != nil
			case "Count":
				r.N = c.Count()
			case "List":
				r.List = c.List()
			case "MapToCache":
				m := map[string]int{ck(o.K): o.V}
				if o.K2 >= 0 {
					m[ck(o.K2)] = o.V2
				}
				r.Err = c.MapToCache(m, time.Duration(o.D)) != nil
			case "IsExpired":
				r.Bool = c.IsExpired(ck(o.K))
			default:
				panic("harness: unknown cache op " + o.Op)
			}
			r.TR = x.S.Now()
			r.Done = true
		}
	})
	end := x.RunPhase()
	if end == simrt.EndOK {
		if panicMsg != "" {
			x.Violate("panic", "panic:cache:"+normPanic(panicMsg), "a cache call panicked: "+panicMsg)
		}
		x.Out.cacheHist = recs
		for _, r := range recs {
			x.Note(fmt.Sprint(r.Op, r.TI, r.TR, r.Err, r.Val, r.Bool, r.N, len(r.List)))
		}
	} else if end == simrt.EndDeadlock {
		x.Violate("deadlock", "deadlock:cache", "the cache client blocked forever: "+x.S.EndDetail)
	}
}

// ---------------------------------------------------------------- reference model

const (
	physNo = iota
	physYes
	physMaybe
)

type mEntry struct {
	phys   int
	val    int
	never  bool
	dlo    int64 // earliest possible deadline (absolute simulated ns)
	dhi    int64 // latest possible deadline
	wild   bool  // the model gave up on this key until it is next overwritten/removed
	maybeV bool  // after an undetermined Set: value may be the previous one (covered by wild)
}

type cacheModel struct {
	w        *CacheWork
	keys     [len4]mEntry
	viol     []Violation
	rec      int
	settled  bool
	nUnknown int
	nExact   int
	curTI    int64
	curTR    int64
}

const len4 = 4

const (
	lvLive = iota
	lvExpired
	lvUnknown
)

// liveness of a physically present entry for an operation evaluated somewhere in [ti,tr].
// At the deadline instant itself the statement is silent: unknown.
func (e *mEntry) liveness(ti, tr int64) int {
	if e.never {
		return lvLive
	}
	if tr < e.dlo {
		return lvLive
	}
	if ti > e.dhi {
		return lvExpired
	}
	return lvUnknown
}

func (m *cacheModel) fail(clause string, r *CRec, format string, a ...any) {
	m.viol = append(m.viol, Violation{Class: "oracle", Identity: "c08:" + clause,
		Detail: fmt.Sprintf("step %d %s at t=[%s,%s]: ", m.rec, r.Op, time.Duration(r.TI), time.Duration(r.TR)) + fmt.Sprintf(format, a...)})
}

// resolve returns (never, duration) for a duration argument, as the documentation states it.
func (m *cacheModel) resolve(d int64) (bool, int64) {
	if d == 0 {
		d = m.w.DefExp
	}
	if d > hugeDur {
		// a deadline decades away: beyond anything a run can reach (simulated time covers hours,
		// clock jumps included), so the entry is live at every instant of the run
		return true, 0
	}
	if d > 0 {
		return false, d
	}
	return true, 0
}

// hugeDur separates ordinary durations from the "practically for ever" ones (250 years, 270 years,
// math.MaxInt64 ns): with those, now+d may not even be representable as Unix nanoseconds.
const hugeDur = int64(1) << 60

var hugeDurs = []int64{250 * 365 * 24 * int64(time.Hour), 270 * 365 * 24 * int64(time.Hour), 1<<63 - 1}

// janitor applies what the background cleanup may or must have done by the time of an
// operation observed over [ti,tr].
func (m *cacheModel) janitor(ti, tr int64) {
	if m.w.Cleanup <= 0 {
		return
	}
	for k := range m.keys {
		e := &m.keys[k]
		if e.phys == physNo || e.never || e.wild {
			continue
		}
		if tr <= e.dlo {
			continue // not yet past its deadline at any instant so far: cleanup must not touch it
		}
		if m.w.P.TimeFaults && !m.settled {
			// the janitor may be stalled or late: an entry past its deadline may or may not be gone
			if e.phys == physYes {
				e.phys = physMaybe
			}
			continue
		}
		if m.settled {
			// liveness once faults have stopped: the settle step slept past every deadline, every
			// outstanding fault and two full cleanup intervals
			e.phys = physNo
			continue
		}
		// fault-free configuration: ticks fire at k*cleanup exactly, and simulated time cannot pass a
		// tick before the janitor has completed its pass (it is runnable, so the clock stands still)
		firstTick := (e.dhi/m.w.Cleanup + 1) * m.w.Cleanup // first tick strictly after the deadline
		switch {
		case ti > firstTick:
			e.phys = physNo
		case tr >= firstTick:
			if e.phys == physYes {
				e.phys = physMaybe
			}
		}
	}
}

func (m *cacheModel) store(k int, v int, d int64, r *CRec) {
	never, dur := m.resolve(d)
	m.keys[k] = mEntry{phys: physYes, val: v, never: never, dlo: r.TI + dur, dhi: r.TR + dur}
}

func (m *cacheModel) rejected(v int) bool { return m.w.StrVals && v == 0 }

// setLike applies insert-only-if-absent semantics for one key and returns what the outcome
// must be: +1 must succeed, -1 must fail, 0 either.
func (m *cacheModel) setExpect(k int, v int, r *CRec) int {
	e := &m.keys[k]
	if e.wild {
		return 0
	}
	if m.rejected(v) {
		return -1
	}
	switch e.phys {
	case physNo:
		return +1
	case physYes:
		switch e.liveness(r.TI, r.TR) {
		case lvLive:
			return -1
		case lvExpired:
			return +1
		}
		return 0
	default: // maybe present, and if present then possibly expired
		if e.liveness(r.TI, r.TR) == lvExpired {
			return +1
		}
		return 0
	}
}

func (m *cacheModel) step(r *CRec) {
	o := r.Op
	if o.Op == "Settle" {
		m.settled = true
		m.janitor(r.TR, r.TR)
		return
	}
	if o.Op == "SleepUntil" {
		return
	}
	m.janitor(r.TI, r.TR)
	switch o.Op {
	case "Set", "SetDefault":
		d := o.D
		if o.Op == "SetDefault" {
			d = 0
		}
		exp := m.setExpect(o.K, o.V, r)
		switch {
		case exp > 0 && r.Err:
			m.fail("set-must-store", r, "the key has no live entry (absent, removed or past its deadline) but the call reported an error and stored nothing")
		case exp < 0 && !r.Err && m.rejected(o.V):
			m.fail("rejected-value-not-reported", r, "the value is rejected (empty string) but the call returned no error")
		case exp < 0 && !r.Err:
			m.fail("set-overwrote-live-entry", r, "the key holds a live entry (value %d) but the call succeeded instead of reporting the duplicate", m.keys[o.K].val)
		}
		if exp == 0 {
			m.nUnknown++
		} else {
			m.nExact++
		}
		if !r.Err && !m.rejected(o.V) {
			m.store(o.K, o.V, d, r)
		}
	case "Update":
		if m.rejected(o.V) {
			if !r.Err {
				m.fail("rejected-value-not-reported", r, "the value is rejected (empty string) but Update returned no error")
			}
			break
		}
		if r.Err {
			m.fail("update-must-store", r, "Update must always store but reported an error")
			m.keys[o.K].wild = true
			break
		}
		m.store(o.K, o.V, o.D, r)
	case "Get":
		e := &m.keys[o.K]
		if e.wild {
			break
		}
		switch e.phys {
		case physNo:
			if !r.Err {
				m.fail("get-absent", r, "the key was never stored or has been removed, but Get returned value %d without error", r.Val)
			}
		default:
			lv := e.liveness(r.TI, r.TR)
			if lv == lvLive && e.phys == physYes {
				if r.Err {
					m.fail("get-live-entry-missing", r, "the entry (value %d, deadline %s) is live at every instant of the call but Get reported an error", e.val, m.dl(e))
				} else if r.Val != e.val {
					m.fail("get-wrong-value", r, "Get returned %d, the latest stored value is %d", r.Val, e.val)
				}
				m.nExact++
			} else if lv == lvExpired {
				if !r.Err {
					m.fail("get-expired-entry-served", r, "the entry's deadline %s lies before the call but Get still returned value %d", m.dl(e), r.Val)
				}
				m.nExact++
			} else {
				if !r.Err && r.Val != e.val {
					m.fail("get-wrong-value", r, "Get returned %d, the latest stored value is %d", r.Val, e.val)
				}
				m.nUnknown++
			}
		}
	case "Delete":
		e := &m.keys[o.K]
		if !e.wild {
			switch {
			case e.phys == physNo && !r.Err:
				m.fail("delete-absent-no-error", r, "the key is absent but Delete reported success")
			case e.phys == physYes && e.liveness(r.TI, r.TR) == lvLive && r.Err:
				m.fail("delete-live-entry-error", r, "the key holds a live entry but Delete reported an error")
			}
		}
		m.keys[o.K] = mEntry{}
	case "Flush":
		for k := range m.keys {
			m.keys[k] = mEntry{}
		}
	case "DeleteExpired":
		for k := range m.keys {
			e := &m.keys[k]
			if e.phys == physNo || e.wild {
				continue
			}
			switch e.liveness(r.TI, r.TR) {
			case lvExpired:
				e.phys = physNo
			case lvUnknown:
				e.phys = physMaybe
			}
		}
	case "Count":
		lo, hi := m.bounds()
		if r.N < lo || r.N > hi {
			m.fail("count", r, "Count returned %d; the map holds at least %d live and at most %d stored entries: %s", r.N, lo, hi, m.describe(r))
		}
		if lo == hi {
			m.nExact++
		} else {
			m.nUnknown++
		}
	case "List":
		for k := range m.keys {
			e := &m.keys[k]
			if e.wild {
				continue
			}
			v, listed := r.List[ck(k)]
			switch {
			case e.phys == physNo && listed:
				m.fail("list-removed-entry", r, "List contains %s=%d, which was never stored or has been removed", ck(k), v)
			case e.phys == physYes && e.liveness(r.TI, r.TR) == lvLive && !listed:
				m.fail("list-live-entry-missing", r, "List lacks the live entry %s=%d", ck(k), e.val)
			case listed && e.phys != physNo && v != e.val:
				m.fail("list-wrong-value", r, "List has %s=%d, the latest stored value is %d", ck(k), v, e.val)
			}
		}
		for k := range r.List {
			known := false
			for i := range m.keys {
				if ck(i) == k {
					known = true
				}
			}
			if !known {
				m.fail("list-unknown-key", r, "List contains key %q that was never stored", k)
			}
		}
	case "MapToCache":
		type ent struct{ k, v int }
		ents := []ent{{o.K, o.V}}
		if o.K2 >= 0 && o.K2 != o.K {
			ents = append(ents, ent{o.K2, o.V2})
		}
		mustErr, mayErr := false, false
		for _, en := range ents {
			exp := m.setExpect(en.k, en.v, r)
			if exp < 0 {
				mustErr = true
			}
			if exp == 0 {
				mayErr = true
			}
		}
		if mustErr && !r.Err {
			m.fail("maptocache-rejection-not-reported", r, "an entry was rejected (live duplicate key or rejected value) but MapToCache returned no error")
		}
		if !mustErr && !mayErr && r.Err {
			m.fail("maptocache-spurious-error", r, "every entry is storable but MapToCache reported an error")
		}
		for _, en := range ents {
			switch m.setExpect(en.k, en.v, r) {
			case +1:
				m.store(en.k, en.v, o.D, r)
			case 0:
				m.keys[en.k].wild = true // stored or not: the call's single error value does not say
				m.keys[en.k].phys = physMaybe
			}
		}
	case "IsExpired":
		e := &m.keys[o.K]
		if e.wild {
			break
		}
		switch {
		case e.phys == physNo && r.Bool:
			m.fail("isexpired-absent", r, "IsExpired is true for a key that is not stored")
		case e.phys == physYes && e.liveness(r.TI, r.TR) == lvLive && r.Bool:
			m.fail("isexpired-live", r, "IsExpired is true for a live entry (deadline %s)", m.dl(e))
		case e.phys == physYes && e.liveness(r.TI, r.TR) == lvExpired && !r.Bool:
			m.fail("isexpired-stored-past-deadline", r, "the entry is still stored and its deadline %s has passed, but IsExpired is false", m.dl(e))
		}
	}
}

func (m *cacheModel) dl(e *mEntry) string {
	if e.never {
		return "never"
	}
	if e.dlo == e.dhi {
		return time.Duration(e.dlo).String()
	}
	return fmt.Sprintf("[%s,%s]", time.Duration(e.dlo), time.Duration(e.dhi))
}

func (m *cacheModel) bounds() (lo, hi int) {
	for k := range m.keys {
		e := &m.keys[k]
		if e.wild {
			hi++
			continue
		}
		if e.phys != physNo {
			hi++
		}
	}
	return m.lowerBound(), hi
}

func (m *cacheModel) lowerBound() int {
	lo := 0
	for k := range m.keys {
		e := &m.keys[k]
		if !e.wild && e.phys == physYes && e.liveness(m.curTI, m.curTR) == lvLive {
			lo++
		}
	}
	return lo
}

func (m *cacheModel) describe(r *CRec) string {
	var parts []string
	for k := range m.keys {
		e := &m.keys[k]
		if e.phys == physNo && !e.wild {
			continue
		}
		p := []string{"no", "stored", "maybe-stored"}[e.phys]
		parts = append(parts, fmt.Sprintf("%s=%d(%s,deadline %s)", ck(k), e.val, p, m.dl(e)))
	}
	sort.Strings(parts)
	return strings.Join(parts, " ")
}

func checkCacheHistory(w *CacheWork, recs []CRec) (viol []Violation, exact, unknown int) {
	m := &cacheModel{w: w}
	for i := range recs {
		if !recs[i].Done {
			break
		}
		m.rec = i
		m.curTI, m.curTR = recs[i].TI, recs[i].TR
		m.step(&recs[i])
	}
	// one violation per clause
	seen := map[string]bool{}
	for _, v := range m.viol {
		if !seen[v.Identity] {
			seen[v.Identity] = true
			viol = append(viol, v)
		}
	}
	return viol, m.nExact, m.nUnknown
}

func (w *CacheWork) Post(out *RunOut) {
	recs := out.cacheHist
	if recs == nil {
		return
	}
	for i, r := range recs {
		out.History = append(out.History, fmt.Sprintf("#%d %s [%s,%s] err=%v val=%d bool=%v n=%d list=%v", i, r.Op, time.Duration(r.TI), time.Duration(r.TR), r.Err, r.Val, r.Bool, r.N, r.List))
	}
	viol, exact, unknown := checkCacheHistory(w, recs)
	hist := "\n  " + strings.Join(out.History, "\n  ")
	for _, v := range viol {
		v.Detail += fmt.Sprintf("\nconfiguration: default expiry %s, cleanup %s, string values %v, time faults %v; history:%s",
			durName(w.DefExp), time.Duration(w.Cleanup), w.StrVals, w.P.TimeFaults, hist)
		out.Violations = append(out.Violations, v)
	}
	out.Count("c08_exact_assertions", exact)
	out.Count("c08_window_undecided", unknown)
	for _, r := range recs {
		if r.Op.Op != "SleepUntil" && r.Op.Op != "Settle" {
			out.Count("c08_ops", 1)
		}
	}
}

// ---------------------------------------------------------------- generation

const ms = int64(time.Millisecond)

func genC08(r *simrt.Rand, tier string, idx uint64) Workload {
	w := &CacheWork{}
	w.DefExp = []int64{-1, 0, 30 * ms}[int(idx%3)]
	w.Cleanup = []int64{0, 50 * ms}[int((idx/3)%2)]
	w.StrVals = r.Bool(0.5)
	faulty := (idx/6)%3 == 2 // a third of the runs inject time faults
	nops := 3 + r.Intn(10)
	if tier == "thorough" {
		nops = 3 + r.Intn(16)
	}
	durs := []int64{0, -1, 10 * ms, 70 * ms}
	// swarm: some runs also store under a 1 ns duration and under durations of centuries
	if r.Bool(0.2) {
		durs = append(durs, 1)
	}
	if r.Bool(0.2) {
		durs = append(durs, hugeDurs[r.Intn(len(hugeDurs))])
	}
	// and a few use another non-positive default ("a default of zero or less" never expires) or a huge one
	switch r.Intn(25) {
	case 0:
		w.DefExp = -7 * ms
	case 1:
		w.DefExp = hugeDurs[r.Intn(len(hugeDurs))]
	}
	cur := int64(0)
	var deadlines []int64
	nextVal := 1
	val := func() int {
		if w.StrVals && r.Bool(0.12) {
			return 0 // the rejected empty string
		}
		nextVal++
		return nextVal
	}
	noteStore := func(d int64) {
		if d == 0 {
			d = w.DefExp
		}
		if d > 0 && d < hugeDur {
			deadlines = append(deadlines, cur+d)
		}
	}
	for len(w.Ops) < nops {
		k := r.Intn(3)
		switch r.Intn(20) {
		case 0, 1, 2:
			d := durs[r.Intn(len(durs))]
			w.Ops = append(w.Ops, COp{Op: "Set", K: k, V: val(), D: d})
			noteStore(d)
		case 3:
			w.Ops = append(w.Ops, COp{Op: "SetDefault", K: k, V: val()})
			noteStore(0)
		case 4, 5:
			d := durs[r.Intn(len(durs))]
			w.Ops = append(w.Ops, COp{Op: "Update", K: k, V: val(), D: d})
			noteStore(d)
		case 6, 7, 8:
			w.Ops = append(w.Ops, COp{Op: "Get", K: k})
		case 9:
			w.Ops = append(w.Ops, COp{Op: "Delete", K: k})
		case 10:
			if r.Bool(0.4) {
				w.Ops = append(w.Ops, COp{Op: "Flush"})
			} else {
				w.Ops = append(w.Ops, COp{Op: "DeleteExpired"})
			}
		case 11:
			w.Ops = append(w.Ops, COp{Op: "DeleteExpired"})
		case 12:
			w.Ops = append(w.Ops, COp{Op: "Count"})
		case 13:
			w.Ops = append(w.Ops, COp{Op: "List"})
		case 14:
			d := durs[r.Intn(len(durs))]
			o := COp{Op: "MapToCache", K: k, V: val(), D: d, K2: -1}
			// MapToCache walks a Go map; in the instrumented copy the order of that walk is a seeded choice
			// (simiter), so two-entry maps are fine under time faults too (round 1 had to avoid them there)
			if r.Bool(0.6) {
				o.K2 = (k + 1 + r.Intn(2)) % 3
				o.V2 = val()
			}
			w.Ops = append(w.Ops, o)
			noteStore(d)
		case 15:
			w.Ops = append(w.Ops, COp{Op: "IsExpired", K: k})
		default:
			// move simulated time to an interesting instant
			var cand []int64
			for _, d := range deadlines {
				cand = append(cand, d-1, d, d+1)
				if w.Cleanup > 0 {
					ft := (d/w.Cleanup + 1) * w.Cleanup
					cand = append(cand, ft-1, ft, ft+1)
				}
			}
			if w.Cleanup > 0 {
				nt := (cur/w.Cleanup + 1) * w.Cleanup
				cand = append(cand, nt-1, nt, nt+1)
			}
			cand = append(cand, cur+1+r.Int63n(100*ms))
			var later []int64
			for _, c := range cand {
				if c > cur {
					later = append(later, c)
				}
			}
			t := later[r.Intn(len(later))]
			w.Ops = append(w.Ops, COp{Op: "SleepUntil", T: t})
			cur = t
		}
	}
	total := 6*len(w.Ops) + 10
	w.P = genSimSpec(r, total)
	w.P.MaxSteps = 6000
	w.P.HorizonNs = int64(24 * time.Hour)
	if faulty {
		w.P.TimeFaults = true
		w.P.StallP = []float64{0.03, 0.08, 0.15}[r.Intn(3)]
		w.P.JumpP = []float64{0, 0.01, 0.03}[r.Intn(3)]
		w.P.DeltasNs = []int64{1, 10*ms - 1, 10 * ms, 10*ms + 1, 20 * ms, 30 * ms, 50 * ms, 70*ms + 1, 100 * ms, 120 * ms, 500 * ms}
		w.P.JumpsNs = []int64{int64(time.Second), int64(10 * time.Second), int64(time.Hour), int64(10000 * 70 * time.Millisecond)}
		w.P.FaultSteps = 1 << 30 // until the client calls StopFaults
		w.MaxDelta = 500 * ms
	}
	// final part: once faults have stopped, expired entries must be gone within about one interval
	if w.Cleanup > 0 {
		last := cur
		for _, d := range deadlines {
			if d > last {
				last = d
			}
		}
		settle := last + w.MaxDelta + 2*w.Cleanup + 1
		if faulty {
			// the run may be far behind the generator's clock after stalls and jumps: the settle step
			// re-reads the clock (see Exec) - T is a lower bound, the model uses the observed times
			settle += 4 * w.MaxDelta
		}
		w.Ops = append(w.Ops, COp{Op: "Settle", T: settle})
		w.Ops = append(w.Ops, COp{Op: "Count"}, COp{Op: "List"})
		for k := 0; k < 3; k++ {
			w.Ops = append(w.Ops, COp{Op: "Get", K: k}, COp{Op: "IsExpired", K: k})
		}
	}
	return w
}

func decodeC08(raw json.RawMessage) (Workload, error) {
	w := &CacheWork{}
	if err := json.Unmarshal(raw, w); err != nil {
		return nil, err
	}
	return w, nil
}

func (w *CacheWork) clone() *CacheWork {
	c := *w
	c.Ops = append([]COp(nil), w.Ops...)
	return &c
}

// WithSim implements shrinker (the fault configuration is part of the workload and is kept).
func (w *CacheWork) WithSim(p SimSpec) Workload {
	c := w.clone()
	q := c.P
	q.Policy, q.PCTDepth, q.PCTSteps, q.PreemptP = p.Policy, p.PCTDepth, p.PCTSteps, p.PreemptP
	c.P = q
	return c
}

// Shrinks implements shrinker: drop a step, drop the faults, drop the janitor.
func (w *CacheWork) Shrinks() []Workload {
	var out []Workload
	if w.P.TimeFaults {
		c := w.clone()
		c.P.TimeFaults, c.P.StallP, c.P.JumpP = false, 0, 0
		c.MaxDelta = 0
		out = append(out, c)
		if w.P.JumpP > 0 {
			c := w.clone()
			c.P.JumpP = 0
			out = append(out, c)
		}
	}
	for i := range w.Ops {
		if w.Ops[i].Op == "Settle" {
			continue
		}
		c := w.clone()
		c.Ops = append(c.Ops[:i], c.Ops[i+1:]...)
		out = append(out, c)
	}
	return out
}

func init() {
	register(&propDef{id: "C08", gen: genC08, decode: decodeC08, nontrivial: func(o *RunOut) bool {
		return o.Counters["c08_exact_assertions"] > 0
	}})
}
