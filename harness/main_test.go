package harness

import (
	"encoding/binary"
	"encoding/json"
	"fmt"
	"hash/fnv"
	"os"
	"sort"
	"strconv"
	"strings"
	"testing"
	"time"

	"verif/simrt"
)

func envInt(name string, def int64) int64 {
	v := os.Getenv(name)
	if v == "" {
		return def
	}
	n, err := strconv.ParseInt(v, 10, 64)
	if err != nil {
		return def
	}
	return n
}

func envU64(name string, def uint64) uint64 {
	v := os.Getenv(name)
	if v == "" {
		return def
	}
	n, err := strconv.ParseUint(v, 10, 64)
	if err != nil {
		// negative seeds are accepted too
		if m, err2 := strconv.ParseInt(v, 10, 64); err2 == nil {
			return uint64(m)
		}
		return def
	}
	return n
}

// FoundViolation is one distinct violation identity with its first occurrence.
type FoundViolation struct {
	Violation Violation  `json:"violation"`
	Count     int        `json:"count"`
	First     ReplayFile `json:"first"`
}

// WorkerOut is what one worker process reports to the driver.
type WorkerOut struct {
	Prop        string            `json:"prop"`
	Tier        string            `json:"tier"`
	BaseSeed    uint64            `json:"base_seed"`
	Worker      int               `json:"worker"`
	Runs        int               `json:"runs"`
	Nontrivial  int               `json:"nontrivial_runs"`
	WallS       float64           `json:"wall_s"`
	SimNanos    int64             `json:"sim_nanos"`
	Steps       int64             `json:"steps"`
	Ends        map[string]int    `json:"ends"`
	Counters    map[string]int    `json:"counters"`
	Shapes      map[string]int    `json:"shapes"`
	Policies    map[string]int    `json:"policies"`
	Found       []*FoundViolation `json:"found"`
	Samples     []ReplayFile      `json:"samples"`
	FirstSeeds  []uint64          `json:"first_seeds"`
	SigFile     string            `json:"sig_file"`
	SigSetCap   bool              `json:"sig_set_capped"`
	NewSigLast  int               `json:"new_signatures_in_last_tenth"`
	Hashes      map[string]uint64 `json:"hashes,omitempty"` // selftest: run index -> event hash
	Workloads   int               `json:"distinct_workloads"`
	Skipped     map[string]int    `json:"skipped"`
	RaceEnabled bool              `json:"race_enabled"`
	NextN       int               `json:"next_n"`                           // first run number this process did not execute
	Recycle     bool              `json:"recycle"`                          // stopped early because the process grew too large; the driver starts a fresh one at next_n
	AutoOps     []string          `json:"auto_discovered_methods"`          // public methods outside the hand-written catalogue, exercised by reflection (C01)
	AutoSkipped []string          `json:"undiscoverable_methods,omitempty"` // outside the catalogue and not callable with generated arguments
}

// VERIF_DEBUG_ENDS=1: print the first few runs of a worker that did not end normally (diagnosis).
var debugEnds = os.Getenv("VERIF_DEBUG_ENDS") != ""
var debugShown int

func hash64(s string) uint64 {
	h := fnv.New64a()
	h.Write([]byte(s))
	return h.Sum64()
}

func toReplay(o *RunOut, v Violation) ReplayFile {
	raw, _ := json.Marshal(o.Work)
	return ReplayFile{Property: o.Prop, Version: checkVersion, Seed: o.Seed, Index: o.Index, Work: raw,
		Decisions: o.Decisions, Violation: v, Stats: o.Stats, History: o.History}
}

func addStats(w *WorkerOut, o *RunOut) {
	w.SimNanos += o.Stats.SimNanos
	w.Steps += int64(o.Stats.Steps)
	w.Ends[o.End]++
	c := w.Counters
	c["fault_preempt"] += o.Stats.Switches
	c["fault_stall_time"] += o.Stats.Stalls - o.Stats.StallsTimer
	c["fault_timer_late"] += o.Stats.StallsTimer
	c["fault_clock_jump"] += o.Stats.Jumps
	c["idle_waits"] += o.Stats.IdleWaits
	c["tasks"] += o.Stats.Tasks
	c["timer_tasks"] += o.Stats.TimerTasks
	c["probe_reader_refused_by_pending_writer"] += o.Stats.ReaderRefuse
	c["probe_two_tasks_parked_on_same_object"] += o.Stats.SameLockWait
	c["probe_preempted_between_two_acquisitions_of_one_call"] += o.Stats.MidOpSwitch
	if o.Stats.HoldPoints > 0 {
		c["hold_scheduling_points"] += o.Stats.HoldPoints
	}
	if o.Stats.Goscheds > 0 {
		c["gosched_scheduling_points"] += o.Stats.Goscheds
	}
	if o.Stats.AtomicOps > 0 {
		c["atomic_scheduling_points"] += o.Stats.AtomicOps
	}
	if o.Stats.Selects > 0 {
		c["select_statements_executed_deterministically"] += o.Stats.Selects
		c["select_statements_that_blocked"] += o.Stats.SelectBlocked
	}
	if o.Stats.TimerResets+o.Stats.TimerStops > 0 {
		c["afterfunc_timer_resets"] += o.Stats.TimerResets
		c["afterfunc_timer_stops"] += o.Stats.TimerStops
	}
	if o.Stats.TimerUnseen > 0 {
		c["afterfunc_timer_firings_after_unseen_rearm"] += o.Stats.TimerUnseen
	}
	if o.Leaked > 0 {
		c["leaked_tasks"] += o.Leaked
	}
	if o.BubblePanic != "" {
		c["bubble_panics"]++
	}
	for k, v := range o.Counters {
		c[k] += v
	}
	if o.Skipped != "" {
		w.Skipped[o.Skipped]++
	}
}

// TestWorker is the entry point of every mode; the driver selects with VERIF_MODE.
func TestWorker(t *testing.T) {
	postT = t
	mode := os.Getenv("VERIF_MODE")
	switch mode {
	case "":
		t.Skip("VERIF_MODE not set")
	case "explore", "selftest":
		explore(t, mode == "selftest")
	case "replay":
		replay(t)
	case "minimise":
		minimise(t)
	case "merge":
		mergeSigs(t)
	case "probe":
		probe(t)
	default:
		t.Fatalf("unknown VERIF_MODE %q", mode)
	}
}

func explore(t *testing.T, selftest bool) {
	prop := os.Getenv("VERIF_PROP")
	pd := props[prop]
	if pd == nil {
		fmt.Fprintf(os.Stderr, "unknown property %q\n", prop)
		os.Exit(2)
	}
	tier := os.Getenv("VERIF_TIER")
	if tier == "" {
		tier = "quick"
	}
	base := envU64("VERIF_SEED", 1)
	worker := int(envInt("VERIF_WORKER", 0))
	workers := int(envInt("VERIF_WORKERS", 1))
	maxRuns := int(envInt("VERIF_RUNS", 1000))
	budget := time.Duration(envInt("VERIF_BUDGET_S", 30)) * time.Second
	outPath := os.Getenv("VERIF_OUT")
	sigCap := int(envInt("VERIF_SIGCAP", 3000000))

	w := &WorkerOut{Prop: prop, Tier: tier, BaseSeed: base, Worker: worker, Ends: map[string]int{}, Counters: map[string]int{},
		Shapes: map[string]int{}, Policies: map[string]int{}, Skipped: map[string]int{}, RaceEnabled: simrt.RaceBuild,
		AutoOps: autoOpsFound, AutoSkipped: autoOpsSkipped}
	if selftest {
		w.Hashes = map[string]uint64{}
	}
	found := map[string]*FoundViolation{}
	sigs := map[uint64]struct{}{}
	works := map[uint64]struct{}{}
	start := time.Now()
	newSigAt := make([]int, 0, 1024) // run number at which each new signature appeared (for saturation)
	// The race runtime's own memory grows with the number of goroutines a process has ever created
	// (about 50 KB per simulated run with timers; it is C memory the Go collector cannot return), so
	// a worker stops when it has grown past VERIF_MAX_RSS_MB and the driver continues the same run
	// numbers in a fresh process.
	startN := int(envInt("VERIF_START_N", 0))
	maxRSS := envInt("VERIF_MAX_RSS_MB", 800)
	w.NextN = maxRuns
	for n := startN; n < maxRuns; n++ {
		if time.Since(start) > budget {
			w.NextN = n
			break
		}
		if !selftest && n%256 == 255 && rssMB() > maxRSS {
			w.NextN, w.Recycle = n, true
			break
		}
		idx := uint64(worker) + uint64(n)*uint64(workers)
		seed := simrt.RunSeed(base, idx)
		rng := simrt.NewRand(seed)
		work := pd.gen(rng, tier, idx)
		out := runOne(t, prop, seed, work, rng, nil, false)
		out.Index = idx
		if p, ok := work.(poster); ok {
			p.Post(out)
		}
		w.Runs++
		addStats(w, out)
		if debugEnds && out.End != simrt.EndOK && debugShown < 3 {
			debugShown++
			raw, _ := json.Marshal(work)
			fmt.Fprintf(os.Stderr, "DEBUG-END %s idx=%d steps=%d detail=%s\n  %s\n", out.End, idx, out.Stats.Steps, out.EndDetail, raw)
		}
		if sw, ok := work.(interface{ ShapeName() string }); ok {
			w.Shapes[sw.ShapeName()]++
		}
		w.Policies[policyName(work.Sim())]++
		if len(w.FirstSeeds) < 5 {
			w.FirstSeeds = append(w.FirstSeeds, seed)
		}
		wk := hash64(work.Key())
		works[wk] = struct{}{}
		if pd.nontrivial(out) {
			w.Nontrivial++
			sig := wk*1099511628211 ^ out.Stats.Sig
			if _, ok := sigs[sig]; !ok {
				if len(sigs) < sigCap {
					sigs[sig] = struct{}{}
					newSigAt = append(newSigAt, n)
				} else {
					w.SigSetCap = true
				}
			}
		}
		if selftest {
			w.Hashes[strconv.FormatUint(idx, 10)] = out.Hash
		}
		for _, v := range out.Violations {
			fv := found[v.Identity]
			if fv == nil {
				fv = &FoundViolation{Violation: v, First: toReplay(out, v)}
				found[v.Identity] = fv
			}
			fv.Count++
		}
		if len(w.Samples) < 2 && len(out.Violations) == 0 && pd.nontrivial(out) {
			w.Samples = append(w.Samples, toReplay(out, Violation{}))
		}
	}
	w.WallS = time.Since(start).Seconds()
	w.Workloads = len(works)
	cut := w.Runs - w.Runs/10
	for _, n := range newSigAt {
		if n >= cut {
			w.NewSigLast++
		}
	}
	ids := make([]string, 0, len(found))
	for id := range found {
		ids = append(ids, id)
	}
	sort.Strings(ids)
	for _, id := range ids {
		w.Found = append(w.Found, found[id])
	}
	if outPath != "" {
		w.SigFile = outPath + ".sigs"
		writeSigs(w.SigFile, sigs)
		if err := writeJSON(outPath, w); err != nil {
			fmt.Fprintln(os.Stderr, "cannot write worker output:", err)
			os.Exit(2)
		}
	}
}

// rssMB is the resident set size of this process in MB (0 if it cannot be read).
func rssMB() int64 {
	b, err := os.ReadFile("/proc/self/statm")
	if err != nil {
		return 0
	}
	f := strings.Fields(string(b))
	if len(f) < 2 {
		return 0
	}
	pages, _ := strconv.ParseInt(f[1], 10, 64)
	return pages * int64(os.Getpagesize()) >> 20
}

func writeSigs(path string, sigs map[uint64]struct{}) {
	l := make([]uint64, 0, len(sigs))
	for s := range sigs {
		l = append(l, s)
	}
	sort.Slice(l, func(i, j int) bool { return l[i] < l[j] })
	b := make([]byte, 8*len(l))
	for i, s := range l {
		binary.LittleEndian.PutUint64(b[8*i:], s)
	}
	os.WriteFile(path, b, 0o644)
}

// mergeSigs counts the union of the signature sets written by the workers.
func mergeSigs(t *testing.T) {
	files := strings.Split(os.Getenv("VERIF_FILES"), ",")
	var all []uint64
	for _, f := range files {
		if f == "" {
			continue
		}
		b, err := os.ReadFile(f)
		if err != nil {
			continue
		}
		for i := 0; i+8 <= len(b); i += 8 {
			all = append(all, binary.LittleEndian.Uint64(b[i:]))
		}
	}
	sort.Slice(all, func(i, j int) bool { return all[i] < all[j] })
	n := 0
	for i := range all {
		if i == 0 || all[i] != all[i-1] {
			n++
		}
	}
	out := os.Getenv("VERIF_OUT")
	os.WriteFile(out, []byte(strconv.Itoa(n)), 0o644)
}

// ReplayResult is what replay mode reports.
type ReplayResult struct {
	Reproduced bool        `json:"reproduced"`
	Diverged   bool        `json:"diverged"`
	End        string      `json:"end"`
	EndDetail  string      `json:"end_detail"`
	Want       Violation   `json:"want"`
	Got        []Violation `json:"got"`
	History    []string    `json:"history"`
	Hash       uint64      `json:"hash"`
}

func loadReplay(path string) (*ReplayFile, Workload, error) {
	b, err := os.ReadFile(path)
	if err != nil {
		return nil, nil, err
	}
	var rf ReplayFile
	if err := json.Unmarshal(b, &rf); err != nil {
		return nil, nil, err
	}
	pd := props[rf.Property]
	if pd == nil {
		return nil, nil, fmt.Errorf("unknown property %q in replay file", rf.Property)
	}
	w, err := pd.decode(rf.Work)
	return &rf, w, err
}

func hasIdentity(vs []Violation, id string) bool {
	for _, v := range vs {
		if v.Identity == id {
			return true
		}
	}
	return false
}

func replay(t *testing.T) {
	rf, work, err := loadReplay(os.Getenv("VERIF_REPLAY"))
	if err != nil {
		fmt.Fprintln(os.Stderr, "replay:", err)
		os.Exit(2)
	}
	var out *RunOut
	// The schedule is replayed exactly; the race detector's reporting is the one component that is
	// not a pure function of the schedule (pseudo-random shadow-cell eviction), so a race-class
	// replay is given a few attempts under the identical schedule.
	for attempt := 0; attempt < 5; attempt++ {
		rng := simrt.NewRand(rf.Seed)
		out = runOne(t, rf.Property, rf.Seed, work, rng, orEmpty(rf.Decisions), false)
		if p, ok := work.(poster); ok {
			p.Post(out)
		}
		if rf.Violation.Class != "race" || hasIdentity(out.Violations, rf.Violation.Identity) || out.End == simrt.EndDiverged {
			break
		}
	}
	res := ReplayResult{End: out.End, EndDetail: out.EndDetail, Want: rf.Violation, Got: out.Violations, History: out.History, Hash: out.Hash}
	res.Diverged = out.End == simrt.EndDiverged
	res.Reproduced = hasIdentity(out.Violations, rf.Violation.Identity)
	if outPath := os.Getenv("VERIF_OUT"); outPath != "" {
		writeJSON(outPath, res)
	}
	for _, v := range out.Violations {
		fmt.Printf("replay: %s %s\n%s\n", v.Class, v.Identity, v.Detail)
	}
	fmt.Printf("replay: end=%s reproduced=%v diverged=%v\n", out.End, res.Reproduced, res.Diverged)
}

func orEmpty(d []simrt.Decision) []simrt.Decision {
	if d == nil {
		return []simrt.Decision{}
	}
	return d
}

// probe runs one explicit workload (a replay file's "workload", decisions ignored) under VERIF_RUNS
// seeded schedules of every policy and prints how often each violation identity showed: a
// directed question ("can the machinery reach this at all?") for diagnosing a miss.
func probe(t *testing.T) {
	rf, work, err := loadReplay(os.Getenv("VERIF_REPLAY"))
	if err != nil {
		fmt.Fprintln(os.Stderr, "probe:", err)
		os.Exit(2)
	}
	n := int(envInt("VERIF_RUNS", 2000))
	sh, ok := work.(shrinker)
	if !ok {
		fmt.Fprintln(os.Stderr, "probe: workload cannot take another scheduling configuration")
		os.Exit(2)
	}
	base := work.Sim()
	var pols []SimSpec
	for _, p := range []float64{0.05, 0.2, 0.5} {
		q := base
		q.Policy, q.PreemptP = simrt.PolSticky, p
		pols = append(pols, q)
	}
	q := base
	q.Policy = simrt.PolRandom
	pols = append(pols, q, q)
	for d := 1; d <= 3; d++ {
		q.Policy, q.PCTDepth, q.PCTSteps = simrt.PolPCT, d, 40
		pols = append(pols, q)
	}
	counts := map[string]int{}
	ends := map[string]int{}
	var first *RunOut
	for i := 0; i < n; i++ {
		seed := simrt.SplitMix64(rf.Seed + uint64(i)*0x9e3779b97f4a7c15)
		w := sh.WithSim(pols[i%len(pols)])
		out := runOne(t, rf.Property, seed, w, simrt.NewRand(seed), nil, false)
		if p, ok := w.(poster); ok {
			p.Post(out)
		}
		ends[out.End]++
		for _, v := range out.Violations {
			counts[v.Identity]++
			if first == nil {
				first = out
			}
		}
	}
	fmt.Printf("probe: %d runs, ends %v\n", n, ends)
	ids := make([]string, 0, len(counts))
	for id := range counts {
		ids = append(ids, id)
	}
	sort.Strings(ids)
	for _, id := range ids {
		fmt.Printf("probe: %6d  %s\n", counts[id], id)
	}
	if first != nil {
		fmt.Printf("probe: first violating run:\n  %s\n", strings.Join(first.History, "\n  "))
		if outPath := os.Getenv("VERIF_OUT"); outPath != "" {
			writeJSON(outPath, toReplay(first, first.Violations[0]))
		}
	}
}
