package harness

import (
	"encoding/json"
	"fmt"
	"hash/fnv"
	"os"
	"strings"
	"sync"
	"testing"
	"testing/synctest"
	"time"

	"verif/simrt"
)

// Violation is one property violation found in one run.
type Violation struct {
	Class    string `json:"class"`    // race | panic | deadlock | fatal | unusable | nonlinearizable | oracle
	Identity string `json:"identity"` // stable identity: used for de-duplication and for the known-findings file
	Detail   string `json:"detail"`
}

// SimSpec is the serialisable part of the simulator configuration.
type SimSpec struct {
	Policy     int     `json:"policy"`
	PCTDepth   int     `json:"pct_depth,omitempty"`
	PCTSteps   int     `json:"pct_steps,omitempty"`
	PreemptP   float64 `json:"preempt_p,omitempty"`
	MaxSteps   int     `json:"max_steps,omitempty"`
	HorizonNs  int64   `json:"horizon_ns,omitempty"`
	TimeFaults bool    `json:"time_faults,omitempty"`
	StallP     float64 `json:"stall_p,omitempty"`
	JumpP      float64 `json:"jump_p,omitempty"`
	DeltasNs   []int64 `json:"deltas_ns,omitempty"`
	JumpsNs    []int64 `json:"jumps_ns,omitempty"`
	FaultSteps int     `json:"fault_steps,omitempty"`
}

func (p SimSpec) config(replay []simrt.Decision, lenient bool) simrt.Config {
	c := simrt.Config{
		Wait: synctest.Wait, Policy: p.Policy, PCTDepth: p.PCTDepth, PCTSteps: p.PCTSteps, PreemptP: p.PreemptP,
		MaxSteps: p.MaxSteps, Horizon: time.Duration(p.HorizonNs), TimeFaults: p.TimeFaults, StallP: p.StallP, JumpP: p.JumpP,
		FaultSteps: p.FaultSteps, Replay: replay, Lenient: lenient,
	}
	for _, d := range p.DeltasNs {
		c.Deltas = append(c.Deltas, time.Duration(d))
	}
	for _, d := range p.JumpsNs {
		c.JumpDeltas = append(c.JumpDeltas, time.Duration(d))
	}
	return c
}

func policyName(p SimSpec) string {
	switch p.Policy {
	case simrt.PolPCT:
		return fmt.Sprintf("pct%d", p.PCTDepth)
	case simrt.PolSticky:
		return fmt.Sprintf("sticky%.2f", p.PreemptP)
	}
	return "random"
}

// genSimSpec draws the scheduling part of the swarm configuration.
func genSimSpec(r *simrt.Rand, estSteps int) SimSpec {
	var p SimSpec
	switch r.Intn(10) {
	case 0, 1, 2, 3:
		p.Policy = simrt.PolRandom
	case 4, 5, 6:
		p.Policy = simrt.PolPCT
		p.PCTDepth = 1 + r.Intn(3)
		// the priority change points are drawn in [0, PCTSteps): an estimate that is too large wastes
		// them beyond the end of the run, one that is too small never preempts late; draw it
		p.PCTSteps = []int{estSteps/3 + 2, estSteps / 2, estSteps, estSteps}[r.Intn(4)]
	default:
		p.Policy = simrt.PolSticky
		p.PreemptP = []float64{0.05, 0.2, 0.5}[r.Intn(3)]
	}
	return p
}

// Workload is one explicit, serialisable simulated program of a property.
type Workload interface {
	// Key is a canonical rendering of the workload (distinctness accounting).
	Key() string
	// Sim returns the scheduling configuration drawn together with the workload.
	Sim() SimSpec
	// Exec runs the workload inside the bubble under simulator x.S and reports violations into x.
	Exec(x *Exec)
}

// Exec is the per-run execution context handed to a workload.
type Exec struct {
	S        *simrt.Sim
	Rng      *simrt.Rand
	Out      *RunOut
	joined   sync.WaitGroup // real WaitGroup: orders everything the clients did before the observers
	nclients int
	h        uint64
}

// Spawn starts a client task; its completion is joined through a real
// WaitGroup so that what follows Join is ordered after it for the race detector.
func (x *Exec) Spawn(name string, f func()) {
	x.joined.Add(1)
	x.nclients++
	x.S.Spawn(name, func() {
		defer x.joined.Done()
		f()
	})
}

// RunPhase runs the scheduler until the spawned clients are done (or a hang), then joins those that finished.
func (x *Exec) RunPhase() string {
	x.S.Run()
	if x.S.End == simrt.EndOK {
		x.joined.Wait()
	}
	return x.S.End
}

// Violate records a violation.
func (x *Exec) Violate(class, identity, detail string) {
	x.Out.Violations = append(x.Out.Violations, Violation{Class: class, Identity: identity, Detail: detail})
}

// Note mixes an observation into the run's event hash (determinism self-test).
func (x *Exec) Note(s string) {
	h := fnv.New64a()
	var b [8]byte
	for i := 0; i < 8; i++ {
		b[i] = byte(x.h >> (8 * i))
	}
	h.Write(b[:])
	h.Write([]byte(s))
	x.h = h.Sum64()
}

// RunOut is everything recorded about one run.
type RunOut struct {
	Prop        string           `json:"prop"`
	Seed        uint64           `json:"seed"`
	Index       uint64           `json:"index"`
	Work        Workload         `json:"work"`
	Decisions   []simrt.Decision `json:"decisions"`
	End         string           `json:"end"`
	EndDetail   string           `json:"end_detail,omitempty"`
	Violations  []Violation      `json:"violations,omitempty"`
	Stats       simrt.Stats      `json:"stats"`
	Hash        uint64           `json:"hash"`
	History     []string         `json:"history,omitempty"`
	Leaked      int              `json:"leaked,omitempty"`
	BubblePanic string           `json:"bubble_panic,omitempty"`
	RaceReports []RaceReport     `json:"race_reports,omitempty"`
	Skipped     string           `json:"skipped,omitempty"`
	Counters    map[string]int   `json:"counters,omitempty"`
	hist        *contHistory
	cacheHist   []CRec
	funcHist    *funcHist
	memoHist    *memoHist
	timerHist   *timerHist
}

// poster is implemented by workloads whose oracles need work outside the bubble
// (sequential reference executions, porcupine).
type poster interface{ Post(out *RunOut) }

// Count bumps a per-run named counter (fault kinds fired, probes, ...).
func (o *RunOut) Count(name string, n int) {
	if o.Counters == nil {
		o.Counters = map[string]int{}
	}
	o.Counters[name] += n
}

// runOne executes one workload under the simulator inside its own bubble.
// replay==nil: decisions come from the policy and rng; otherwise they are followed.
func runOne(t *testing.T, prop string, seed uint64, w Workload, rng *simrt.Rand, replay []simrt.Decision, lenient bool) *RunOut {
	out := &RunOut{Prop: prop, Seed: seed, Work: w}
	raceBefore := simrt.RaceErrors()
	logOff := raceLogOffset()
	raceAtTeardown, logAtTeardown := -1, int64(-1)
	t.Run("r", func(t *testing.T) {
		defer func() {
			if p := recover(); p != nil {
				out.BubblePanic = fmt.Sprint(p)
			}
		}()
		synctest.Test(t, func(t *testing.T) {
			cfg := w.Sim().config(replay, lenient)
			cfg.AuxSeed = seed
			s := simrt.New(cfg, rng)
			defer s.Close()
			x := &Exec{S: s, Rng: rng, Out: out}
			func() {
				defer func() {
					if p := recover(); p != nil {
						x.Violate("harness", "harness-panic", fmt.Sprintf("panic on the scheduler goroutine: %v", p))
					}
				}()
				w.Exec(x)
			}()
			out.End, out.EndDetail = s.End, s.EndDetail
			out.Stats = s.St
			out.Decisions = append([]simrt.Decision(nil), s.Trace()...)
			for _, f := range s.Fatal {
				x.Violate("fatal", "fatal:"+stripTask(f), f)
			}
			for _, p := range s.TaskPanics() {
				x.Violate("panic", "libtask-panic:"+stripTask(p), strings.Join(s.TaskPanicStacks(), "\n"))
			}
			// Teardown unwinds whatever is still parked with runtime.Goexit; the deferred calls of those
			// tasks run against shims that no longer block, i.e. without the happens-before edges of the
			// locks they pretend to take. Accesses made then are not an execution of the program: race
			// reports written from here on are not counted (a race of the program itself is reported when
			// its second access happens, which is before this point).
			raceAtTeardown, logAtTeardown = simrt.RaceErrors(), raceLogOffset()
			out.Leaked = s.Teardown()
			x.Note(fmt.Sprint(s.St.Sig, s.St.Steps, s.St.SimNanos, out.End))
			out.Hash = x.h
		})
	})
	raceAfter := simrt.RaceErrors()
	if raceAtTeardown >= 0 {
		if n := raceAfter - raceAtTeardown; n > 0 {
			out.Count("race_reports_during_teardown_ignored", n)
		}
		raceAfter = raceAtTeardown
	}
	if d := raceAfter - raceBefore; d > 0 {
		reps := readRaceReports(logOff, logAtTeardown)
		out.RaceReports = reps
		seen := map[string]bool{}
		for _, rp := range reps {
			id := rp.Identity()
			if seen[id] {
				continue
			}
			seen[id] = true
			cls := "race"
			if rp.Harness {
				cls = "harness"
			}
			out.Violations = append(out.Violations, Violation{Class: cls, Identity: id, Detail: rp.Text})
		}
		if len(reps) == 0 {
			out.Violations = append(out.Violations, Violation{Class: "harness", Identity: "race-unparsed", Detail: fmt.Sprintf("race detector counted %d new reports but none could be read from the log", d)})
		}
		// The event hash (determinism self-test) deliberately excludes the race set: the schedule and
		// every result are a pure function of the seed, but ThreadSanitizer keeps only a few shadow
		// cells per word and evicts them pseudo-randomly, so *which* of several racing pairs of one
		// run get reported can differ between processes.
	}
	return out
}

func stripTask(s string) string {
	// "task3[name]: msg" -> "msg"
	if i := strings.Index(s, ": "); i >= 0 {
		return s[i+2:]
	}
	return s
}

// ---------------------------------------------------------------- property registry

type propDef struct {
	id string
	// gen draws the workload of run number idx (idx makes systematic sweeps possible; everything else comes from r).
	gen func(r *simrt.Rand, tier string, idx uint64) Workload
	// decode rebuilds a workload from its JSON form (replay files).
	decode func(raw json.RawMessage) (Workload, error)
	// nontrivial says whether a finished run counts as a non-trivial case.
	nontrivial func(o *RunOut) bool
}

var props = map[string]*propDef{}

func register(p *propDef) { props[p.id] = p }

// ReplayFile is the on-disk form of a failing (or sample) run.
type ReplayFile struct {
	Property  string           `json:"property"`
	Version   int              `json:"check_version"`
	Seed      uint64           `json:"seed"`
	Index     uint64           `json:"index"`
	Work      json.RawMessage  `json:"workload"`
	Decisions []simrt.Decision `json:"decisions"`
	Violation Violation        `json:"violation"`
	Stats     simrt.Stats      `json:"stats"`
	History   []string         `json:"history,omitempty"`
	Note      string           `json:"note,omitempty"`
}

const checkVersion = 1

func writeJSON(path string, v any) error {
	b, err := json.MarshalIndent(v, "", " ")
	if err != nil {
		return err
	}
	return os.WriteFile(path, b, 0o644)
}

// snapCopy copies src element by element. The harness's snapshot helpers are //go:norace, but
// append and copy go through the runtime's slice routines, which report to the race detector on
// behalf of any caller; in a run that did not end normally (step limit, deadlock) nothing orders
// the tasks' last writes before the scheduler goroutine's snapshot, and the copy would be reported
// as a race of the harness with itself.
//
//go:norace
func snapCopy[T any](src []T) []T {
	out := make([]T, len(src))
	for i := range src {
		out[i] = src[i]
	}
	return out
}

//go:norace
func snapFlatten[T any](src [][]T) []T {
	n := 0
	for _, r := range src {
		n += len(r)
	}
	out := make([]T, n)
	k := 0
	for _, r := range src {
		for i := range r {
			out[k] = r[i]
			k++
		}
	}
	return out
}
