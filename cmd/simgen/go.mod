module verif/simgen

go 1.20
