// simgen is the source-to-source instrumenter of the deterministic simulator:
// it copies the non-test Go files of a module into a scratch directory and
// redirects the seams the simulator owns.
//
//	import "sync"                 -> import sync "verif/simrt/simsync"
//	import "math/rand"            -> import rand "verif/simrt/simrand" (package-level functions draw from the run seed)
//	import "sync/atomic"          -> import atomic "verif/simrt/simatomic" (a scheduling point before every operation)
//	go f(args)                    -> simrt.Go(func(){ f(args) })   (arguments evaluated first)
//	time.AfterFunc / time.Sleep   -> simrt.AfterFunc / simrt.Sleep
//	runtime.SetFinalizer          -> simrt.SetFinalizer (registers nothing)
//	runtime.GOMAXPROCS / NumCPU   -> simrt.GOMAXPROCS / simrt.NumCPU (a per-run value drawn from the run seed: 1, 2, 4 or 16)
//	runtime.Gosched               -> simrt.Gosched (scheduling point; lets simulated time pass when a task spins on it)
//	channel send/receive/close/select/range -> bracketed by simrt.PreChan()/PostChan()
//
// Everything else is copied unchanged. A construct it cannot handle is a build
// problem (exit 2), never a verdict.
//
// usage: simgen -src DIR -dst DIR [-report FILE]
package main

import (
	"bytes"
	"encoding/json"
	"flag"
	"fmt"
	"go/ast"
	"go/importer"
	"go/parser"
	"go/printer"
	"go/token"
	"go/types"
	"os"
	"path/filepath"
	"sort"
	"strconv"
	"strings"
)

const (
	simrtPath   = "verif/simrt"
	simsyncPath = "verif/simrt/simsync"
	simatomPath = "verif/simrt/simatomic"
	simrandPath = "verif/simrt/simrand"
	simiterPath = "verif/simrt/simiter"
)

type report struct {
	Files         int            `json:"files"`
	SyncImports   int            `json:"sync_imports"`
	GoStmts       []string       `json:"go_statements"`
	AfterFuncs    []string       `json:"after_funcs"`
	Sleeps        []string       `json:"sleeps"`
	Finalizers    []string       `json:"finalizers"`
	Goscheds      []string       `json:"goscheds"`
	ChanOps       []string       `json:"chan_ops"`
	Selects       []string       `json:"selects"`
	TimerCalls    []string       `json:"timer_calls"`
	RangesStatic  int            `json:"ranges_decided_statically"`
	Ranges        []string       `json:"ranges_maybe_chan"`
	AtomicUsers   []string       `json:"sync_atomic_importers"`
	TryLocks      []string       `json:"try_locks"`
	RandUsers     []string       `json:"math_rand_importers"`
	MapRanges     []string       `json:"map_ranges"`
	MapRangesKept []string       `json:"map_ranges_left_alone,omitempty"`
	Unhandled     []string       `json:"unhandled"`
	OtherImports  map[string]int `json:"-"`
}

var rep report
var tmpCounter int

func main() {
	src := flag.String("src", "", "source module directory")
	dst := flag.String("dst", "", "destination directory")
	repPath := flag.String("report", "", "write a JSON report of what was instrumented")
	flag.Parse()
	if *src == "" || *dst == "" {
		fmt.Fprintln(os.Stderr, "usage: simgen -src DIR -dst DIR")
		os.Exit(2)
	}
	findMapRanges(*src)
	err := filepath.Walk(*src, func(path string, info os.FileInfo, err error) error {
		if err != nil {
			return err
		}
		rel, _ := filepath.Rel(*src, path)
		if info.IsDir() {
			base := info.Name()
			if rel != "." && (strings.HasPrefix(base, ".") || base == "testdata" || base == "vendor") {
				return filepath.SkipDir
			}
			return nil
		}
		out := filepath.Join(*dst, rel)
		switch {
		case strings.HasSuffix(path, "_test.go"):
			return nil
		case strings.HasSuffix(path, ".go"):
			if err := os.MkdirAll(filepath.Dir(out), 0o755); err != nil {
				return err
			}
			return instrument(path, rel, out)
		case info.Name() == "go.mod" || info.Name() == "go.sum":
			if err := os.MkdirAll(filepath.Dir(out), 0o755); err != nil {
				return err
			}
			b, err := os.ReadFile(path)
			if err != nil {
				return err
			}
			return os.WriteFile(out, b, 0o644)
		}
		return nil
	})
	if err != nil {
		fmt.Fprintln(os.Stderr, "simgen:", err)
		os.Exit(2)
	}
	if len(rep.TryLocks) > 0 {
		// a generated file in the root package of the copy switches the post-acquisition scheduling
		// points on (see simrt.HoldPoint)
		pkg := "main"
		if fs, _ := filepath.Glob(filepath.Join(*dst, "*.go")); len(fs) > 0 {
			if pf, err := parser.ParseFile(token.NewFileSet(), fs[0], nil, parser.PackageClauseOnly); err == nil {
				pkg = pf.Name.Name
			}
		}
		gen := "package " + pkg + "\n\nimport simrt \"" + simrtPath + "\"\n\nfunc init() { simrt.EnableHoldPoints() }\n"
		if err := os.WriteFile(filepath.Join(*dst, "zz_simgen_flags.go"), []byte(gen), 0o644); err != nil {
			fmt.Fprintln(os.Stderr, "simgen:", err)
			os.Exit(2)
		}
	}
	if len(rep.Unhandled) > 0 {
		for _, u := range rep.Unhandled {
			fmt.Fprintln(os.Stderr, "simgen: unhandled construct:", u)
		}
		os.Exit(2)
	}
	if *repPath != "" {
		b, _ := json.MarshalIndent(rep, "", " ")
		if err := os.WriteFile(*repPath, b, 0o644); err != nil {
			fmt.Fprintln(os.Stderr, "simgen:", err)
			os.Exit(2)
		}
	}
}

type fileCtx struct {
	fset      *token.FileSet
	rel       string
	timeName  string
	rtName    string
	usesSimrt bool
	usesIter  bool
	hasChan   bool
	path      string
}

func (c *fileCtx) pos(n ast.Node) string {
	p := c.fset.Position(n.Pos())
	return fmt.Sprintf("%s:%d", c.rel, p.Line)
}

func instrument(path, rel, out string) error {
	fset := token.NewFileSet()
	f, err := parser.ParseFile(fset, path, nil, parser.ParseComments)
	if err != nil {
		return err
	}
	rep.Files++
	c := &fileCtx{fset: fset, rel: rel, path: path}

	// keep only directive comments: inserted statements carry no positions and
	// free-floating comments could otherwise be re-attached in odd places
	var keep []*ast.CommentGroup
	for _, cg := range f.Comments {
		if cg.End() < f.Package {
			keep = append(keep, cg) // build constraints / package doc
			continue
		}
		for _, cm := range cg.List {
			if strings.HasPrefix(cm.Text, "//go:") || strings.HasPrefix(cm.Text, "//export") || strings.HasPrefix(cm.Text, "//line") {
				keep = append(keep, &ast.CommentGroup{List: []*ast.Comment{cm}})
			}
		}
	}
	f.Comments = keep
	ast.Inspect(f, func(n ast.Node) bool {
		switch d := n.(type) {
		case *ast.FuncDecl:
			d.Doc = filterDoc(d.Doc)
		case *ast.GenDecl:
			d.Doc = filterDoc(d.Doc)
		case *ast.TypeSpec:
			d.Doc, d.Comment = nil, nil
		case *ast.ValueSpec:
			d.Doc, d.Comment = nil, nil
		case *ast.Field:
			d.Doc, d.Comment = nil, nil
		case *ast.ImportSpec:
			d.Doc, d.Comment = nil, nil
		}
		return true
	})

	for _, im := range f.Imports {
		p, _ := strconv.Unquote(im.Path.Value)
		name := ""
		if im.Name != nil {
			name = im.Name.Name
		}
		switch p {
		case "sync":
			im.Path.Value = strconv.Quote(simsyncPath)
			if im.Name == nil {
				im.Name = ast.NewIdent("sync")
			}
			rep.SyncImports++
		case "time":
			c.timeName = "time"
			if name != "" {
				c.timeName = name
			}
		case "runtime":
			c.rtName = "runtime"
			if name != "" {
				c.rtName = name
			}
		case "math/rand":
			// package-level functions draw from the run's seeded stream; explicit generators stay real
			im.Path.Value = strconv.Quote(simrandPath)
			if im.Name == nil {
				im.Name = ast.NewIdent("rand")
			}
			rep.RandUsers = append(rep.RandUsers, rel)
		case "sync/atomic":
			// same API, every operation preceded by a scheduling point (real atomics underneath)
			im.Path.Value = strconv.Quote(simatomPath)
			if im.Name == nil {
				im.Name = ast.NewIdent("atomic")
			}
			rep.AtomicUsers = append(rep.AtomicUsers, rel)
		}
	}

	// does the file mention channels at all?
	ast.Inspect(f, func(n ast.Node) bool {
		switch n.(type) {
		case *ast.ChanType, *ast.SendStmt, *ast.SelectStmt:
			c.hasChan = true
		case *ast.UnaryExpr:
			if n.(*ast.UnaryExpr).Op == token.ARROW {
				c.hasChan = true
			}
		}
		return true
	})

	// does the file try locks without blocking?
	ast.Inspect(f, func(n ast.Node) bool {
		if sel, ok := n.(*ast.SelectorExpr); ok && (sel.Sel.Name == "TryLock" || sel.Sel.Name == "TryRLock") {
			rep.TryLocks = append(rep.TryLocks, c.pos(sel))
		}
		return true
	})

	// 1. calls into time / runtime that the simulator owns
	ast.Inspect(f, func(n ast.Node) bool {
		call, ok := n.(*ast.CallExpr)
		if !ok {
			return true
		}
		sel, ok := call.Fun.(*ast.SelectorExpr)
		if !ok {
			return true
		}
		if m := timerCallAt[c.posKey(call)]; m != "" && m == sel.Sel.Name {
			// a firing of a time.AfterFunc timer runs as a task: the simulator has to see it re-armed
			recv := sel.X
			where := c.pos(call)
			call.Fun = &ast.SelectorExpr{X: ast.NewIdent("simrt"), Sel: ast.NewIdent("Timer" + m)}
			call.Args = append([]ast.Expr{recv}, call.Args...)
			c.usesSimrt = true
			rep.TimerCalls = append(rep.TimerCalls, where+" "+m)
			return true
		}
		x, ok := sel.X.(*ast.Ident)
		if !ok {
			return true
		}
		switch {
		case c.timeName != "" && x.Name == c.timeName && sel.Sel.Name == "AfterFunc":
			x.Name = "simrt"
			c.usesSimrt = true
			rep.AfterFuncs = append(rep.AfterFuncs, c.pos(call))
		case c.timeName != "" && x.Name == c.timeName && sel.Sel.Name == "Sleep":
			x.Name = "simrt"
			c.usesSimrt = true
			rep.Sleeps = append(rep.Sleeps, c.pos(call))
		case c.rtName != "" && x.Name == c.rtName && (sel.Sel.Name == "GOMAXPROCS" || sel.Sel.Name == "NumCPU"):
			// the machine's parallelism is environment, not input: a per-run value from the run seed
			x.Name = "simrt"
			c.usesSimrt = true
			rep.Goscheds = append(rep.Goscheds, c.pos(call)+" "+sel.Sel.Name)
		case c.rtName != "" && x.Name == c.rtName && sel.Sel.Name == "Gosched":
			x.Name = "simrt"
			c.usesSimrt = true
			rep.Goscheds = append(rep.Goscheds, c.pos(call))
		case c.rtName != "" && x.Name == c.rtName && sel.Sel.Name == "SetFinalizer":
			x.Name = "simrt"
			c.usesSimrt = true
			rep.Finalizers = append(rep.Finalizers, c.pos(call))
		}
		return true
	})

	// 2. statement lists: go statements and channel operations
	ast.Inspect(f, func(n ast.Node) bool {
		switch b := n.(type) {
		case *ast.BlockStmt:
			b.List = c.rewriteList(b.List, false)
		case *ast.CaseClause:
			b.Body = c.rewriteList(b.Body, false)
		case *ast.CommClause:
			b.Body = c.rewriteList(b.Body, true)
		}
		return true
	})

	// 3. imports
	if c.usesSimrt {
		addImport(f, "simrt", simrtPath)
	}
	if c.usesIter {
		addImport(f, "simiter", simiterPath)
	}
	fixUnusedImport(f, c.timeName, "time")
	fixUnusedImport(f, c.rtName, "runtime")

	var buf bytes.Buffer
	if err := (&printer.Config{Mode: printer.UseSpaces | printer.TabIndent, Tabwidth: 8}).Fprint(&buf, fset, f); err != nil {
		return err
	}
	// the result must parse
	if _, err := parser.ParseFile(token.NewFileSet(), out, buf.Bytes(), 0); err != nil {
		return fmt.Errorf("instrumented %s does not parse: %v", rel, err)
	}
	return os.WriteFile(out, buf.Bytes(), 0o644)
}

func filterDoc(cg *ast.CommentGroup) *ast.CommentGroup {
	if cg == nil {
		return nil
	}
	var l []*ast.Comment
	for _, cm := range cg.List {
		if strings.HasPrefix(cm.Text, "//go:") || strings.HasPrefix(cm.Text, "//export") {
			l = append(l, cm)
		}
	}
	if len(l) == 0 {
		return nil
	}
	return &ast.CommentGroup{List: l}
}

func addImport(f *ast.File, name, path string) {
	spec := &ast.ImportSpec{Name: ast.NewIdent(name), Path: &ast.BasicLit{Kind: token.STRING, Value: strconv.Quote(path)}}
	decl := &ast.GenDecl{Tok: token.IMPORT, Specs: []ast.Spec{spec}}
	f.Decls = append([]ast.Decl{decl}, f.Decls...)
	f.Imports = append(f.Imports, spec)
}

// fixUnusedImport blanks an import whose only uses were redirected.
func fixUnusedImport(f *ast.File, local, path string) {
	if local == "" {
		return
	}
	used := false
	ast.Inspect(f, func(n ast.Node) bool {
		if sel, ok := n.(*ast.SelectorExpr); ok {
			if x, ok := sel.X.(*ast.Ident); ok && x.Name == local && x.Obj == nil {
				used = true
			}
		}
		return !used
	})
	if used {
		return
	}
	for _, im := range f.Imports {
		p, _ := strconv.Unquote(im.Path.Value)
		if p == path {
			im.Name = ast.NewIdent("_")
		}
	}
}

func call(pkg, fn string, args ...ast.Expr) *ast.CallExpr {
	return &ast.CallExpr{Fun: &ast.SelectorExpr{X: ast.NewIdent(pkg), Sel: ast.NewIdent(fn)}, Args: args}
}

func stmtCall(pkg, fn string, args ...ast.Expr) ast.Stmt {
	return &ast.ExprStmt{X: call(pkg, fn, args...)}
}

// shallowChanOp reports whether the expressions evaluated by the statement
// itself (not by nested blocks or function literals) contain a channel
// receive or a close() call.
func shallowChanOp(nodes ...ast.Node) bool {
	found := false
	for _, n := range nodes {
		if n == nil || isNilNode(n) {
			continue
		}
		ast.Inspect(n, func(m ast.Node) bool {
			if found {
				return false
			}
			switch e := m.(type) {
			case *ast.FuncLit, *ast.BlockStmt:
				return false
			case *ast.UnaryExpr:
				if e.Op == token.ARROW {
					found = true
				}
			case *ast.CallExpr:
				if id, ok := e.Fun.(*ast.Ident); ok && id.Name == "close" && len(e.Args) == 1 {
					found = true
				}
			}
			return true
		})
	}
	return found
}

func isNilNode(n ast.Node) bool {
	switch v := n.(type) {
	case ast.Expr:
		return v == nil
	case ast.Stmt:
		return v == nil
	}
	return false
}

func exprNode(e ast.Expr) ast.Node {
	if e == nil {
		return nil
	}
	return e
}

func stmtNode(s ast.Stmt) ast.Node {
	if s == nil {
		return nil
	}
	return s
}

func (c *fileCtx) rewriteList(list []ast.Stmt, commBody bool) []ast.Stmt {
	var out []ast.Stmt
	if commBody {
		// first statement of every select case: the goroutine was possibly just woken by the runtime
		c.usesSimrt = true
		out = append(out, stmtCall("simrt", "PostChan"))
	}
	for _, s := range list {
		out = append(out, c.rewriteStmt(s)...)
	}
	return out
}

func (c *fileCtx) bracket(s ast.Stmt, after bool, what string) []ast.Stmt {
	c.usesSimrt = true
	rep.ChanOps = append(rep.ChanOps, c.pos(s)+" "+what)
	l := []ast.Stmt{stmtCall("simrt", "PreChan"), s}
	if after {
		l = append(l, stmtCall("simrt", "PostChan"))
	}
	return l
}

func (c *fileCtx) rewriteStmt(s ast.Stmt) []ast.Stmt {
	switch st := s.(type) {
	case *ast.GoStmt:
		return c.rewriteGo(st)
	case *ast.SendStmt:
		return c.bracket(s, true, "send")
	case *ast.SelectStmt:
		rep.Selects = append(rep.Selects, c.pos(s))
		if out := c.rewriteSelect(st); out != nil {
			return out
		}
		rep.Unhandled = append(rep.Unhandled, c.pos(s)+": select statement left to the runtime's random choice")
		// no statement after it: every clause body starts with PostChan, and a select whose clauses
		// all return must stay the function's terminating statement
		return c.bracket(s, false, "select")
	case *ast.ExprStmt:
		if shallowChanOp(st.X) {
			return c.bracket(s, true, "recv/close")
		}
	case *ast.AssignStmt:
		var nodes []ast.Node
		for _, e := range st.Rhs {
			nodes = append(nodes, e)
		}
		for _, e := range st.Lhs {
			nodes = append(nodes, e)
		}
		if shallowChanOp(nodes...) {
			return c.bracket(s, true, "recv")
		}
	case *ast.DeclStmt:
		if shallowChanOp(st.Decl) {
			return c.bracket(s, true, "recv")
		}
	case *ast.IncDecStmt:
		if shallowChanOp(st.X) {
			return c.bracket(s, true, "recv")
		}
	case *ast.ReturnStmt:
		var nodes []ast.Node
		for _, e := range st.Results {
			nodes = append(nodes, e)
		}
		if shallowChanOp(nodes...) {
			return c.bracket(s, false, "recv in return")
		}
	case *ast.IfStmt:
		if shallowChanOp(stmtNode(st.Init), exprNode(st.Cond)) {
			return c.bracket(s, true, "recv in if")
		}
	case *ast.SwitchStmt:
		if shallowChanOp(stmtNode(st.Init), exprNode(st.Tag)) {
			return c.bracket(s, true, "recv in switch")
		}
	case *ast.ForStmt:
		if shallowChanOp(stmtNode(st.Init), exprNode(st.Cond), stmtNode(st.Post)) {
			rep.Unhandled = append(rep.Unhandled, c.pos(s)+": channel operation in a for-statement header")
		}
	case *ast.DeferStmt:
		// a deferred close/receive runs at function exit; it cannot be bracketed
		// syntactically. close never blocks and the woken side has its own PostChan.
	case *ast.LabeledStmt:
		inner := c.rewriteStmt(st.Stmt)
		if len(inner) == 1 {
			st.Stmt = inner[0]
			return []ast.Stmt{st}
		}
		// keep the label on the statement itself (a select that became a switch: on the switch, the
		// last statement of its replacement)
		found := false
		for i, x := range inner {
			if x == st.Stmt {
				st.Stmt = x
				inner[i] = st
				found = true
			}
		}
		if !found {
			st.Stmt = inner[len(inner)-1]
			inner[len(inner)-1] = st
		}
		return inner
	case *ast.RangeStmt:
		if mapRangeAt[c.posKey(st)] {
			if out := c.rewriteMapRange(st); out != nil {
				return out
			}
		}
		if !c.hasChan {
			if _, ok := st.X.(*ast.SelectorExpr); !ok {
				break
			}
		}
		switch rangeKindAt[c.posKey(st)] {
		case "other":
			rep.RangesStatic++
			return []ast.Stmt{s} // known not to be a channel (passing an array to RangePre would copy it)
		case "chan":
			rep.RangesStatic++
			c.usesSimrt = true
			rep.Ranges = append(rep.Ranges, c.pos(s))
			st.Body.List = append([]ast.Stmt{stmtCall("simrt", "PostChan")}, st.Body.List...)
			return []ast.Stmt{stmtCall("simrt", "PreChan"), s, stmtCall("simrt", "PostChan")}
		}
		switch st.X.(type) {
		case *ast.Ident, *ast.SelectorExpr:
			// x may be a channel: decided at run time, one reflect call per iteration
			c.usesSimrt = true
			rep.Ranges = append(rep.Ranges, c.pos(s))
			st.Body.List = append([]ast.Stmt{stmtCall("simrt", "RangeYield", st.X)}, st.Body.List...)
			return []ast.Stmt{stmtCall("simrt", "RangePre", st.X), s, stmtCall("simrt", "RangeYield", st.X)}
		}
	}
	return []ast.Stmt{s}
}

// rewriteSelect turns a select statement into a switch over simrt.Select, which polls the clauses
// in a seeded order instead of leaving the choice among ready clauses to the runtime:
//
//	_c0 := simrt.RecvFrom(ch1); _c1 := simrt.SendTo(ch2).Val(x)
//	switch simrt.Select(hasDefault, _c0, _c1) {
//	case 0: v, ok := _c0.Got2(); simrt.PostChan(); body...
//	case 1: simrt.PostChan(); body...
//	default: simrt.PostChan(); default body...   (or panic("unreachable") when there is no default clause)
//	}
//
// Channel operands and send values are evaluated once, in source order, as the statement does.
func (c *fileCtx) rewriteSelect(st *ast.SelectStmt) []ast.Stmt {
	tmpCounter++
	id := tmpCounter
	var pre []ast.Stmt
	var args []ast.Expr
	var clauses []ast.Stmt
	hasDefault := false
	n := 0
	unparen := func(e ast.Expr) ast.Expr {
		for {
			p, ok := e.(*ast.ParenExpr)
			if !ok {
				return e
			}
			e = p.X
		}
	}
	recvOf := func(e ast.Expr) ast.Expr {
		u, ok := unparen(e).(*ast.UnaryExpr)
		if !ok || u.Op != token.ARROW {
			return nil
		}
		return u.X
	}
	for _, cl := range st.Body.List {
		cc, ok := cl.(*ast.CommClause)
		if !ok {
			return nil
		}
		post := stmtCall("simrt", "PostChan")
		if cc.Comm == nil {
			hasDefault = true
			clauses = append(clauses, &ast.CaseClause{Body: append([]ast.Stmt{post}, cc.Body...)})
			continue
		}
		name := fmt.Sprintf("_simSel%d_%d", id, n)
		var bind ast.Expr
		var first ast.Stmt
		switch cm := cc.Comm.(type) {
		case *ast.SendStmt:
			bind = &ast.CallExpr{Fun: &ast.SelectorExpr{X: call("simrt", "SendTo", cm.Chan), Sel: ast.NewIdent("Val")}, Args: []ast.Expr{cm.Value}}
		case *ast.ExprStmt:
			ch := recvOf(cm.X)
			if ch == nil {
				return nil
			}
			bind = call("simrt", "RecvFrom", ch)
		case *ast.AssignStmt:
			if len(cm.Rhs) != 1 || len(cm.Lhs) < 1 || len(cm.Lhs) > 2 {
				return nil
			}
			ch := recvOf(cm.Rhs[0])
			if ch == nil {
				return nil
			}
			bind = call("simrt", "RecvFrom", ch)
			got := "Got1"
			if len(cm.Lhs) == 2 {
				got = "Got2"
			}
			first = &ast.AssignStmt{Lhs: cm.Lhs, Tok: cm.Tok, Rhs: []ast.Expr{
				&ast.CallExpr{Fun: &ast.SelectorExpr{X: ast.NewIdent(name), Sel: ast.NewIdent(got)}}}}
		default:
			return nil
		}
		pre = append(pre, &ast.AssignStmt{Lhs: []ast.Expr{ast.NewIdent(name)}, Tok: token.DEFINE, Rhs: []ast.Expr{bind}})
		args = append(args, ast.NewIdent(name))
		body := []ast.Stmt{}
		if first != nil {
			body = append(body, first)
		}
		body = append(body, post)
		body = append(body, cc.Body...)
		clauses = append(clauses, &ast.CaseClause{List: []ast.Expr{&ast.BasicLit{Kind: token.INT, Value: strconv.Itoa(n)}}, Body: body})
		n++
	}
	if !hasDefault {
		clauses = append(clauses, &ast.CaseClause{Body: []ast.Stmt{&ast.ExprStmt{X: &ast.CallExpr{Fun: ast.NewIdent("panic"),
			Args: []ast.Expr{&ast.BasicLit{Kind: token.STRING, Value: strconv.Quote("simgen: unreachable select clause")}}}}}})
	}
	c.usesSimrt = true
	rep.ChanOps = append(rep.ChanOps, c.pos(st)+" select (deterministic stand-in)")
	hd := "false"
	if hasDefault {
		hd = "true"
	}
	sw := &ast.SwitchStmt{Tag: call("simrt", "Select", append([]ast.Expr{ast.NewIdent(hd)}, args...)...), Body: &ast.BlockStmt{List: clauses}}
	out := []ast.Stmt{stmtCall("simrt", "PreChan")}
	out = append(out, pre...)
	return append(out, sw)
}

func (c *fileCtx) posKey(n ast.Node) string {
	p := c.fset.Position(n.Pos())
	return fmt.Sprintf("%s:%d:%d", c.path, p.Line, p.Column)
}

// mapRangeAt holds the positions ("file:line:col") of the range statements whose operand is a map,
// as decided by go/types in findMapRanges.
var mapRangeAt = map[string]bool{}

// findMapRanges type-checks every package directory of the module (errors are tolerated: imports
// from outside the module resolve to empty packages, which is enough to know whether a range
// operand declared in the module is a map) and records the range statements over maps.
func findMapRanges(root string) {
	modPath := ""
	if b, err := os.ReadFile(filepath.Join(root, "go.mod")); err == nil {
		for _, l := range strings.Split(string(b), "\n") {
			if strings.HasPrefix(l, "module ") {
				modPath = strings.TrimSpace(strings.TrimPrefix(l, "module "))
			}
		}
	}
	fset := token.NewFileSet()
	type pkgFiles struct {
		files []*ast.File
		done  *types.Package
		busy  bool
	}
	dirs := map[string]*pkgFiles{}
	filepath.Walk(root, func(path string, info os.FileInfo, err error) error {
		if err != nil {
			return nil
		}
		if info.IsDir() {
			base := info.Name()
			if path != root && (strings.HasPrefix(base, ".") || base == "testdata" || base == "vendor") {
				return filepath.SkipDir
			}
			return nil
		}
		if !strings.HasSuffix(path, ".go") || strings.HasSuffix(path, "_test.go") {
			return nil
		}
		f, err := parser.ParseFile(fset, path, nil, 0)
		if err != nil {
			return nil
		}
		d := filepath.Dir(path)
		if dirs[d] == nil {
			dirs[d] = &pkgFiles{}
		}
		dirs[d].files = append(dirs[d].files, f)
		return nil
	})
	var check func(dir string) *types.Package
	// package time is type-checked from source (under a second): whether the receiver of a Reset or
	// Stop call is a *time.Timer, or a range operand a channel of time.Time, has to be known
	std := importer.ForCompiler(fset, "source", nil)
	var timePkg *types.Package
	imp := importerFunc(func(path string) (*types.Package, error) {
		if path == "time" {
			if timePkg == nil {
				if p, err := std.Import("time"); err == nil {
					timePkg = p
				}
			}
			if timePkg != nil {
				return timePkg, nil
			}
		}
		if modPath != "" && (path == modPath || strings.HasPrefix(path, modPath+"/")) {
			d := filepath.Join(root, strings.TrimPrefix(strings.TrimPrefix(path, modPath), "/"))
			if p := check(d); p != nil {
				return p, nil
			}
		}
		name := path
		if i := strings.LastIndex(path, "/"); i >= 0 {
			name = path[i+1:]
		}
		p := types.NewPackage(path, name)
		p.MarkComplete()
		return p, nil
	})
	check = func(dir string) *types.Package {
		pf := dirs[dir]
		if pf == nil || pf.busy {
			return nil
		}
		if pf.done != nil {
			return pf.done
		}
		pf.busy = true
		defer func() { pf.busy = false }()
		info := &types.Info{Types: map[ast.Expr]types.TypeAndValue{}}
		conf := types.Config{Importer: imp, Error: func(error) {}, FakeImportC: true}
		name := "p"
		if len(pf.files) > 0 {
			name = pf.files[0].Name.Name
		}
		pkg, _ := conf.Check(name, fset, pf.files, info)
		pf.done = pkg
		for _, f := range pf.files {
			ast.Inspect(f, func(n ast.Node) bool {
				key := func(pos token.Pos) string {
					p := fset.Position(pos)
					return fmt.Sprintf("%s:%d:%d", p.Filename, p.Line, p.Column)
				}
				switch x := n.(type) {
				case *ast.RangeStmt:
					if tv, ok := info.Types[x.X]; ok && tv.Type != nil {
						if isMapType(tv.Type) {
							mapRangeAt[key(x.Pos())] = true
						}
						if b, ok := tv.Type.(*types.Basic); !ok || b.Kind() != types.Invalid {
							if _, isChan := tv.Type.Underlying().(*types.Chan); isChan {
								rangeKindAt[key(x.Pos())] = "chan"
							} else if _, isTP := tv.Type.(*types.TypeParam); !isTP {
								rangeKindAt[key(x.Pos())] = "other"
							}
						}
					}
				case *ast.CallExpr:
					sel, ok := x.Fun.(*ast.SelectorExpr)
					if !ok || (sel.Sel.Name != "Reset" && sel.Sel.Name != "Stop") {
						return true
					}
					if tv, ok := info.Types[sel.X]; ok && isTimerPtr(tv.Type) {
						timerCallAt[key(x.Pos())] = sel.Sel.Name
					}
				}
				return true
			})
		}
		return pkg
	}
	for d := range dirs {
		check(d)
	}
}

// timerCallAt holds the positions of the calls x.Reset(d) / x.Stop() whose receiver is a *time.Timer,
// rangeKindAt whether the operand of a range statement is a channel ("chan") or known not to be one
// ("other"); both as decided by go/types in findMapRanges.
var timerCallAt = map[string]string{}
var rangeKindAt = map[string]string{}

func isTimerPtr(t types.Type) bool {
	p, ok := t.(*types.Pointer)
	if !ok {
		return false
	}
	n, ok := p.Elem().(*types.Named)
	return ok && n.Obj() != nil && n.Obj().Pkg() != nil && n.Obj().Pkg().Path() == "time" && n.Obj().Name() == "Timer"
}

type importerFunc func(path string) (*types.Package, error)

func (f importerFunc) Import(path string) (*types.Package, error) { return f(path) }

func isMapType(t types.Type) bool {
	if t == nil {
		return false
	}
	switch u := t.Underlying().(type) {
	case *types.Map:
		return true
	case *types.Interface:
		// a type parameter: a map if every term of its constraint is one
		if tp, ok := t.(*types.TypeParam); ok {
			iface, _ := tp.Constraint().Underlying().(*types.Interface)
			if iface == nil {
				return false
			}
			all, any := true, false
			for i := 0; i < iface.NumEmbeddeds(); i++ {
				switch e := iface.EmbeddedType(i).(type) {
				case *types.Union:
					for j := 0; j < e.Len(); j++ {
						any = true
						if _, ok := e.Term(j).Type().Underlying().(*types.Map); !ok {
							all = false
						}
					}
				default:
					any = true
					if _, ok := e.Underlying().(*types.Map); !ok {
						all = false
					}
				}
			}
			return all && any
		}
		_ = u
	}
	return false
}

// rewriteMapRange turns `for k, v := range m { body }` over a map into an iteration over
// simiter.Keys(m) (a seeded order). Forms it does not handle are left alone and reported.
func (c *fileCtx) rewriteMapRange(st *ast.RangeStmt) []ast.Stmt {
	if st.Tok != token.DEFINE && !(st.Key == nil && st.Value == nil) {
		rep.MapRangesKept = append(rep.MapRangesKept, c.pos(st)+" (assignment form)")
		return nil
	}
	if st.Key == nil && st.Value == nil {
		return nil // `for range m`: only the count matters
	}
	tmpCounter++
	mName := fmt.Sprintf("_simMap%d", tmpCounter)
	okName := fmt.Sprintf("_simOk%d", tmpCounter)
	isBlank := func(e ast.Expr) bool {
		id, ok := e.(*ast.Ident)
		return e == nil || (ok && id.Name == "_")
	}
	keyIdent := fmt.Sprintf("_simKey%d", tmpCounter)
	if !isBlank(st.Key) {
		id, ok := st.Key.(*ast.Ident)
		if !ok {
			rep.MapRangesKept = append(rep.MapRangesKept, c.pos(st)+" (key is not an identifier)")
			return nil
		}
		keyIdent = id.Name
	}
	var pre []ast.Stmt
	index := &ast.IndexExpr{X: ast.NewIdent(mName), Index: ast.NewIdent(keyIdent)}
	if !isBlank(st.Value) {
		if _, ok := st.Value.(*ast.Ident); !ok {
			rep.MapRangesKept = append(rep.MapRangesKept, c.pos(st)+" (value is not an identifier)")
			return nil
		}
		pre = append(pre, &ast.AssignStmt{Lhs: []ast.Expr{st.Value, ast.NewIdent(okName)}, Tok: token.DEFINE, Rhs: []ast.Expr{index}})
	} else {
		pre = append(pre, &ast.AssignStmt{Lhs: []ast.Expr{ast.NewIdent("_"), ast.NewIdent(okName)}, Tok: token.DEFINE, Rhs: []ast.Expr{index}})
	}
	pre = append(pre, &ast.IfStmt{Cond: &ast.UnaryExpr{Op: token.NOT, X: ast.NewIdent(okName)},
		Body: &ast.BlockStmt{List: []ast.Stmt{&ast.BranchStmt{Tok: token.CONTINUE}}}})
	c.usesIter = true
	rep.MapRanges = append(rep.MapRanges, c.pos(st))
	bind := &ast.AssignStmt{Lhs: []ast.Expr{ast.NewIdent(mName)}, Tok: token.DEFINE, Rhs: []ast.Expr{st.X}}
	st.X = call("simiter", "Keys", ast.NewIdent(mName))
	st.Key = ast.NewIdent("_")
	st.Value = ast.NewIdent(keyIdent)
	st.Tok = token.DEFINE
	st.Body.List = append(pre, st.Body.List...)
	return []ast.Stmt{bind, st}
}

func (c *fileCtx) rewriteGo(g *ast.GoStmt) []ast.Stmt {
	c.usesSimrt = true
	rep.GoStmts = append(rep.GoStmts, c.pos(g))
	callx := g.Call
	// go func(){...}()  with no arguments: pass the literal itself
	if fl, ok := callx.Fun.(*ast.FuncLit); ok && len(callx.Args) == 0 && fl.Type.Results == nil {
		return []ast.Stmt{stmtCall("simrt", "Go", fl)}
	}
	if callx.Ellipsis != token.NoPos {
		rep.Unhandled = append(rep.Unhandled, c.pos(g)+": go statement with a variadic spread argument")
		return []ast.Stmt{g}
	}
	// evaluate the arguments now, call later
	tmpCounter++
	var lhs []ast.Expr
	var rhs []ast.Expr
	var args []ast.Expr
	for i, a := range callx.Args {
		name := fmt.Sprintf("_simArg%d_%d", tmpCounter, i)
		lhs = append(lhs, ast.NewIdent(name))
		rhs = append(rhs, a)
		args = append(args, ast.NewIdent(name))
	}
	var stmts []ast.Stmt
	if len(lhs) > 0 {
		stmts = append(stmts, &ast.AssignStmt{Lhs: lhs, Tok: token.DEFINE, Rhs: rhs})
	}
	inner := &ast.CallExpr{Fun: callx.Fun, Args: args}
	lit := &ast.FuncLit{
		Type: &ast.FuncType{Params: &ast.FieldList{}},
		Body: &ast.BlockStmt{List: []ast.Stmt{&ast.ExprStmt{X: inner}}},
	}
	stmts = append(stmts, stmtCall("simrt", "Go", lit))
	return []ast.Stmt{&ast.BlockStmt{List: stmts}}
}

func init() {
	_ = sort.Strings
}
